#!/bin/bash
# usage: confirm_seeded.sh <seeded dir containing patch.diff demo.rs README.md> <demo target path relative to repo> <cargo test args...>
# Confirms in a scratch worktree (outside /repo and /verif): with the patch the unedited suite passes and the demo fails;
# without the patch the demo passes. Prints a JSON summary line.
set -u
DIR=$1; DEMO_PATH=$2; shift 2
WT=${WT:-/tmp/confirm_wt}
BASE=${BASE:-$(git -C /repo rev-parse HEAD)}
if [ ! -d $WT ]; then git -C /repo worktree add -q --detach $WT $BASE || exit 2; fi
cd $WT && git reset -q --hard && git clean -qfd -e target && git checkout -q --detach $BASE || exit 2
git apply "$DIR/${PATCHFILE:-patch.diff}" || { echo '{"applies": false}'; exit 1; }
suite=$(cargo test --workspace --offline 2>&1 | grep -E '^test result' | awk '{p+=$4; f+=$6} END {print p" "f}')
mkdir -p $(dirname "$DEMO_PATH"); cp "$DIR/demo.rs" "$DEMO_PATH"
cargo test --offline "$@" > $WT.with.log 2>&1; with_rc=$?
git checkout -q -- .
cargo test --offline "$@" > $WT.without.log 2>&1; without_rc=$?
rm -f "$DEMO_PATH"
echo "{\"applies\": true, \"suite_pass_fail_with_patch\": \"$suite\", \"demo_rc_with_patch\": $with_rc, \"demo_rc_without_patch\": $without_rc}"
