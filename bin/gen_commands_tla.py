#!/usr/bin/env python3
"""Generates spec/Commands.tla - the per-command expectation table of C15 - from the readable table below.

The table is written from the MPD protocol reference (command reference, "ranges", "filters"), NOT from
definitions.rs: for every constructor / builder path of a predefined command it gives the documented command
word and the MEANING of each argument. TLC cannot index strings, so words are emitted as byte tuples; the text
is kept as a comment next to each row."""

# argument meanings:
#  S1 S2 S3      string parameter, exactly one token at this position (byte fidelity is C06's business)
#  S1OPT         as S1, but the empty string may also be sent as no argument at all (optional [URI]: "" is the root)
#  N1 N2         unsigned decimal          +N1 -N1 +N2 -N2   sign and decimal
#  B             0 / 1                     KW:text           literal keyword
#  R             range lo..hi read as the position set {x : a <= x < b}, "a:" when open
#  POS1          the single position n1 as the range n1:n1+1 (saturating at MAX)
#  T +T -T       seconds with <= 3 decimals within 0.5 ms of the duration
#  XF            whole seconds (floor)     VOL   min(n1, 100)
#  SINGLE RGM    enum spellings            F     filter expression (one token; parsed with FilterGrammar)
#  TAG0 TAG1 TAG2 one tag name             TAGS  every tag of the list, one token each
TABLE = [
    ("ClearQueue", "clear", []), ("Next", "next", []), ("Ping", "ping", []), ("Previous", "previous", []), ("Stop", "stop", []),
    ("Status", "status", []), ("Stats", "stats", []), ("ReplayGainStatus", "replay_gain_status", []), ("CurrentSong", "currentsong", []),
    ("GetPlaylists", "listplaylists", []), ("GetEnabledTagTypes", "tagtypes", []), ("ReadChannelMessages", "readmessages", []), ("ListChannels", "channels", []),
    ("ClearPlaylist", "playlistclear", ["S1"]), ("DeletePlaylist", "rm", ["S1"]), ("SaveQueueAsPlaylist", "save", ["S1"]), ("GetPlaylist", "listplaylistinfo", ["S1"]),
    ("SubscribeToChannel", "subscribe", ["S1"]), ("UnsubscribeFromChannel", "unsubscribe", ["S1"]), ("SendChannelMessage", "sendmessage", ["S1", "S2"]),
    ("SetConsume", "consume", ["B"]), ("SetPause", "pause", ["B"]), ("SetRandom", "random", ["B"]), ("SetRepeat", "repeat", ["B"]),
    ("SetSingle", "single", ["SINGLE"]), ("SetReplayGainMode", "replay_gain_mode", ["RGM"]), ("SetVolume", "setvol", ["VOL"]), ("Crossfade", "crossfade", ["XF"]),
    ("SetBinaryLimit", "binarylimit", ["N1"]),
    ("Queue", "playlistinfo", []), ("QueueAll", "playlistinfo", []), ("QueueSongPos", "playlistinfo", ["N1"]), ("QueueSongId", "playlistid", ["N1"]), ("QueueRange", "playlistinfo", ["R"]),
    ("QueueRangeSongPos", "playlistinfo", ["N1"]), ("QueueRangeSongId", "playlistid", ["N1"]), ("QueueRangeRange", "playlistinfo", ["R"]),
    ("PlayCurrent", "play", []), ("PlayPos", "play", ["N1"]), ("PlayId", "playid", ["N1"]),
    ("SeekToPos", "seek", ["N1", "T"]), ("SeekToId", "seekid", ["N1", "T"]), ("SeekAbs", "seekcur", ["T"]), ("SeekFwd", "seekcur", ["+T"]), ("SeekBack", "seekcur", ["-T"]),
    ("ShuffleAll", "shuffle", []), ("ShuffleRange", "shuffle", ["R"]),
    ("AddUri", "addid", ["S1"]), ("AddAt", "addid", ["S1", "N1"]), ("AddBefore", "addid", ["S1", "-N1"]), ("AddAfter", "addid", ["S1", "+N1"]),
    ("DeleteId", "deleteid", ["N1"]), ("DeletePosition", "delete", ["POS1"]), ("DeleteRange", "delete", ["R"]),
    ("MoveIdTo", "moveid", ["N1", "N2"]), ("MoveIdAfter", "moveid", ["N1", "+N2"]), ("MoveIdBefore", "moveid", ["N1", "-N2"]),
    ("MovePosTo", "move", ["POS1", "N2"]), ("MovePosAfter", "move", ["POS1", "+N2"]), ("MovePosBefore", "move", ["POS1", "-N2"]),
    ("MoveRangeTo", "move", ["R", "N2"]), ("MoveRangeAfter", "move", ["R", "+N2"]), ("MoveRangeBefore", "move", ["R", "-N2"]),
    # the server strips `window` from the END first, then `sort`: the sort pair must precede the window pair
    ("Find", "find", ["F"]), ("FindSort", "find", ["F", "KW:sort", "TAG0"]), ("FindWindow", "find", ["F", "KW:window", "R"]),
    ("FindSortWindow", "find", ["F", "KW:sort", "TAG0", "KW:window", "R"]), ("FindWindowSort", "find", ["F", "KW:sort", "TAG0", "KW:window", "R"]),
    ("List", "list", ["TAG0"]), ("ListFilter", "list", ["TAG0", "F"]), ("ListGroup1", "list", ["TAG0", "KW:group", "TAG1"]),
    ("ListGroup2", "list", ["TAG0", "KW:group", "TAG1", "KW:group", "TAG2"]), ("ListFilterGroup1", "list", ["TAG0", "F", "KW:group", "TAG1"]),
    ("Count", "count", ["F"]), ("CountGroupBy", "count", ["F", "KW:group", "TAG0"]), ("CountGrouped", "count", ["KW:group", "TAG0"]), ("CountGroupedFilter", "count", ["F", "KW:group", "TAG0"]),
    ("RenamePlaylist", "rename", ["S1", "S2"]), ("LoadPlaylist", "load", ["S1"]), ("LoadPlaylistRange", "load", ["S1", "R"]),
    ("AddToPlaylist", "playlistadd", ["S1", "S2"]), ("AddToPlaylistAt", "playlistadd", ["S1", "S2", "N1"]),
    ("RemoveFromPlaylistPosition", "playlistdelete", ["S1", "N1"]), ("RemoveFromPlaylistRange", "playlistdelete", ["S1", "R"]), ("MoveInPlaylist", "playlistmove", ["S1", "N1", "N2"]),
    ("ListAllInRoot", "listallinfo", []), ("ListAllInDirectory", "listallinfo", ["S1OPT"]),
    ("AlbumArt", "albumart", ["S1", "KW:0"]), ("AlbumArtOffset", "albumart", ["S1", "N1"]), ("AlbumArtEmbedded", "readpicture", ["S1", "KW:0"]), ("AlbumArtEmbeddedOffset", "readpicture", ["S1", "N1"]),
    ("TagTypesEnableAll", "tagtypes", ["KW:all"]), ("TagTypesDisableAll", "tagtypes", ["KW:clear"]), ("TagTypesEnable", "tagtypes", ["KW:enable", "TAGS"]), ("TagTypesDisable", "tagtypes", ["KW:disable", "TAGS"]),
    ("StickerGet", "sticker", ["KW:get", "KW:song", "S1", "S2"]), ("StickerSet", "sticker", ["KW:set", "KW:song", "S1", "S2", "S3"]),
    ("StickerDelete", "sticker", ["KW:delete", "KW:song", "S1", "S2"]), ("StickerList", "sticker", ["KW:list", "KW:song", "S1"]),
    ("StickerFind", "sticker", ["KW:find", "KW:song", "S1", "S2"]), ("StickerFindEq", "sticker", ["KW:find", "KW:song", "S1", "S2", "KW:=", "S3"]),
    ("StickerFindGt", "sticker", ["KW:find", "KW:song", "S1", "S2", "KW:>", "S3"]), ("StickerFindLt", "sticker", ["KW:find", "KW:song", "S1", "S2", "KW:<", "S3"]),
    ("Update", "update", []), ("UpdateUri", "update", ["S1"]), ("Rescan", "rescan", []), ("RescanUri", "rescan", ["S1"]),
]

# which Rust type in definitions.rs each constructor path belongs to (for the coverage-gap report)
RUST_TYPE = {}
for ctor, _, _ in TABLE:
    base = ctor
    for pre in ("QueueRange", "Queue", "Play", "SeekTo", "Seek", "Shuffle", "Add", "Delete", "Move", "Find", "ListAllIn", "List", "CountGrouped", "Count", "LoadPlaylist", "AddToPlaylist",
                "RemoveFromPlaylist", "MoveInPlaylist", "AlbumArtEmbedded", "AlbumArt", "TagTypes", "StickerFind", "Update", "Rescan"):
        if ctor.startswith(pre) and ctor not in ("AddToPlaylist", "AddToPlaylistAt", "MoveInPlaylist"):
            base = pre
            break
    if ctor.startswith("AddToPlaylist"):
        base = "AddToPlaylist"
    if ctor == "CountGroupBy":
        base = "Count"
    RUST_TYPE[ctor] = base


def tup(b):
    return "<<" + ",".join(str(x) for x in b) + ">>"


def spec(a):
    if a.startswith("KW:"):
        return '<<"KW", %s>>' % tup(a[3:].encode())
    return '<<"%s", <<>>>>' % a


def main():
    rows = []
    for ctor, word, args in TABLE:
        rows.append('  [] c = "%s" -> [word |-> %s, args |-> <<%s>>]   \\* %s %s' % (ctor, tup(word.encode()), ", ".join(spec(a) for a in args), word, " ".join(args)))
    rows[0] = rows[0].replace("  [] ", "     ", 1)
    body = "\n".join(rows)
    out = f'''------------------------------ MODULE Commands ------------------------------
\\* GENERATED by bin/gen_commands_tla.py from its readable table - edit the table, not this file.
\\* Expectation table for the predefined commands (C15), written from the MPD protocol reference:
\\* constructor / builder path -> documented command word and the meaning of every argument.
EXTENDS Integers, Sequences

Known == {{{", ".join('"%s"' % c for c, _, _ in TABLE)}}}
Row(c) ==
  CASE
{body}
=============================================================================
'''
    open("/verif/spec/Commands.tla", "w").write(out)
    import json
    json.dump(RUST_TYPE, open("/verif/lib/commands_types.json", "w"), indent=0, sort_keys=True)


if __name__ == "__main__":
    main()
