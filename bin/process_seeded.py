#!/usr/bin/env python3
"""process_seeded.py <prop> <variant> <checks...>: confirm a sub-agent's change in a scratch worktree, run checks against it in /repo,
and store it under /verif/seeded/<prop>-<variant>/ with meta.json."""
import json, os, re, shutil, subprocess, sys
prop, var = sys.argv[1], sys.argv[2]
checks = sys.argv[3:]
wtprefix = os.environ.get("WTPREFIX", "/tmp/wt_")
outvar = os.environ.get("AS", var)
src = f"{wtprefix}{prop}/SEEDED/{var}"
readme = open(f"{src}/README.md").read()
cmd = re.search(r"cargo test[^`\n]*", readme).group(0).split()[2:]
cmd = [c for c in cmd if c != "--offline"]
demo = re.search(r"mpd_(client|protocol)/tests/[A-Za-z0-9_]+\.rs", readme).group(0)
env = dict(os.environ, BASE="3e8c7e9")
r = subprocess.run(["/verif/bin/confirm_seeded.sh", src, demo] + cmd, capture_output=True, text=True, env=env)
line = [l for l in r.stdout.strip().split("\n") if l.startswith("{")][-1]
conf = json.loads(line)
print("confirm:", conf)
ok = conf.get("applies") and conf["suite_pass_fail_with_patch"].split()[1] == "0" and int(conf["suite_pass_fail_with_patch"].split()[0]) >= 104 and conf["demo_rc_with_patch"] != 0 and conf["demo_rc_without_patch"] == 0
results = {}
if ok:
    hooked = f"{src}/patch_hooked.diff" if os.path.exists(f"{src}/patch_hooked.diff") else f"{src}/patch.diff"
    r = subprocess.run(["/verif/bin/try_seeded.sh", hooked] + checks, capture_output=True, text=True)
    print(r.stdout[-3000:])
    for m in re.finditer(r"== (C\d+) exit=(\d+) (\d+) violation", r.stdout):
        results[m.group(1)] = {"exit": int(m.group(2)), "violation_lines": int(m.group(3))}
    whats = re.findall(r"  what: (.*)", r.stdout)
dst = f"/verif/seeded/{prop}-{outvar}"
os.makedirs(dst, exist_ok=True)
for f in ("patch.diff", "demo.rs", "README.md", "patch_hooked.diff"):
    if os.path.exists(f"{src}/{f}"):
        shutil.copy(f"{src}/{f}", f"{dst}/{f}")
meta = {"property": prop, "variant": outvar, "confirmed": bool(ok), "confirmation": conf, "demo_path": demo, "demo_cmd": "cargo test --offline " + " ".join(cmd),
        "base_commit_for_confirmation": "3e8c7e9 (HEAD before the cfg-guarded hook commits; hooks are off in a normal build)",
        "checks_run_quick": results, "reported": whats[:6] if ok else []}
if os.path.exists(f"{dst}/meta.json"):
    old = json.load(open(f"{dst}/meta.json"))
    for k in ("summary", "breaks", "needs", "what_i_ran"):
        if k in old:
            meta[k] = old[k]
    prev = old.get("checks_run_quick", {})
    prev.update(meta["checks_run_quick"])
    meta["checks_run_quick"] = prev
json.dump(meta, open(f"{dst}/meta.json", "w"), indent=1)
print(json.dumps(meta["checks_run_quick"]))
