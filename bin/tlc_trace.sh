#!/bin/bash
# usage: tlc_trace.sh <Module> <cfg> <trace.ndjson> [extra env]  -- runs one single-worker TLC trace validation
set -u
MOD=$1; CFG=$2; TRACE=$3
WORK=${WORK:-/verif/work/tlc_$$}
mkdir -p "$WORK"
cd /verif/spec
TRACE="$TRACE" JAVA_TOOL_OPTIONS="-Xss1g -Dtlc2.tool.queue.IStateQueue=StateDeque" \
  timeout ${TLC_TIMEOUT:-600} java -Xmx${TLC_XMX:-3g} -XX:+UseParallelGC -cp /opt/veriftools/tla/tla2tools.jar:/opt/veriftools/tla/CommunityModules-deps.jar tlc2.TLC \
  -workers 1 -metadir "$WORK/meta" -noGenerateSpecTE -config "$CFG" "$MOD" 2>&1
rc=$?
rm -rf "$WORK"
exit $rc
