#!/usr/bin/env python3
"""retry_seeded.py <seeded-dir-name> <checks...>: re-run quick checks against an already confirmed seeded change (after strengthening)
and merge the results into its meta.json."""
import json, os, re, subprocess, sys
name, checks = sys.argv[1], sys.argv[2:]
d = f"/verif/seeded/{name}"
patch = f"{d}/patch_hooked.diff" if os.path.exists(f"{d}/patch_hooked.diff") else f"{d}/patch.diff"
r = subprocess.run(["/verif/bin/try_seeded.sh", patch] + checks, capture_output=True, text=True)
meta = json.load(open(f"{d}/meta.json"))
res = meta.setdefault("checks_run_quick", {})
for m in re.finditer(r"== (C\d+) exit=(\d+) (\d+) violation", r.stdout):
    res[m.group(1)] = {"exit": int(m.group(2)), "violation_lines": int(m.group(3))}
whats = re.findall(r"  what: (.*)", r.stdout)
if whats:
    meta["reported"] = sorted(set(meta.get("reported", []) + whats[:6]))[:10]
json.dump(meta, open(f"{d}/meta.json", "w"), indent=1)
print(name, json.dumps(res))
