#!/bin/bash
# runs every check of the manifest at the given tier (default quick) and prints exit code and wall time
TIER=${1:-quick}
cd /verif
for p in $(python3 -c "import json; print(' '.join(c['property_id'] for c in json.load(open('MANIFEST.json'))['checks']))"); do
  s=$(date +%s); out=$(bin/check $p --tier $TIER 2>&1); rc=$?; e=$(date +%s)
  echo "$p rc=$rc $((e-s))s $(echo "$out" | grep -cE '^VIOLATION') viol $(echo "$out" | grep -cE '^KNOWN-FINDING') known $(echo "$out" | grep -E 'TOOL-ERROR|NOTE' | head -2 | tr '\n' ' ')"
done
