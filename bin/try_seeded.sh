#!/bin/bash
# usage: try_seeded.sh <patch.diff> <property id>...   Applies the patch to /repo, runs the quick checks, restores /repo.
set -u
PATCH=$1; shift
cd /repo && git status --short | grep -q . && { echo "/repo not clean"; exit 2; }
if ! git apply "$PATCH" 2>/dev/null; then
  if true; then
    # (never patch with fuzz: it can silently put the hunk in the wrong place)  the change rewrites code around the cfg-guarded hook lines: take the touched files as they were before the hook commits
    # (the hooks in those files are lost, exactly as they would be in such a rewrite) and apply the change to that
    git checkout -q -- .; find . \( -name '*.orig' -o -name '*.rej' \) -not -path './target/*' -delete
    for f in $(grep -E '^\+\+\+ b/' "$PATCH" | sed 's#^+++ b/##'); do git show 3e8c7e9:"$f" > "$f"; done
    git apply "$PATCH" || { echo "patch does not apply"; git checkout -q -- .; exit 2; }
    echo "NOTE applied on the pre-hook version of the touched files (hooks in those files dropped)"
  fi
fi
find . -name '*.orig' -not -path './target/*' -delete
(cargo build --offline -q 2>&1 | grep -E '^error' | head -3)
cd /verif
for p in "$@"; do
  out=$(bin/check $p --tier ${TIER:-quick} 2>&1); rc=$?
  echo "== $p exit=$rc $(echo "$out" | grep -c '^VIOLATION') violation line(s)"
  echo "$out" | grep -E '^VIOLATION|^  what|TOOL-ERROR|HARNESS' | head -6
done
cd /repo && git checkout -q -- . && git status --short | head -3
