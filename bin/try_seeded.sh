#!/bin/bash
# usage: try_seeded.sh <patch.diff> <property id>...   Applies the patch to /repo, runs the quick checks, restores /repo.
set -u
PATCH=$1; shift
cd /repo && git status --short | grep -q . && { echo "/repo not clean"; exit 2; }
git apply "$PATCH" 2>/dev/null || patch -p1 --fuzz=3 -s < "$PATCH" || { echo "patch does not apply"; git checkout -q -- .; exit 2; }
find . -name '*.orig' -not -path './target/*' -delete
(cargo build --offline -q 2>&1 | grep -E '^error' | head -3)
cd /verif
for p in "$@"; do
  out=$(bin/check $p --tier ${TIER:-quick} 2>&1); rc=$?
  echo "== $p exit=$rc $(echo "$out" | grep -c '^VIOLATION') violation line(s)"
  echo "$out" | grep -E '^VIOLATION|^  what|TOOL-ERROR|HARNESS' | head -6
done
cd /repo && git checkout -q -- . && git status --short | head -3
