#!/bin/bash
# usage: try_seeded.sh <patch.diff> <property id>...
# Applies the patch to a SCRATCH copy of /repo (git worktree of /repo's HEAD under $ALT, default /tmp/alt) and runs the quick checks against
# that copy through a scratch copy of the harness whose path dependencies point there (VERIF_REPO / VERIF_HARNESS_DIR, read by lib/common.py).
# /repo itself is never touched, so background runs and my own checks are not disturbed.  ALT=/repo-less runs can go on in parallel with
# different ALT directories.
set -u
PATCH=$1; shift
ALT=${ALT:-/tmp/alt}
if [ ! -d $ALT/repo ]; then
  mkdir -p $ALT && git -C /repo worktree add -q --detach $ALT/repo HEAD || exit 2
fi
if [ ! -d $ALT/harness ]; then
  mkdir -p $ALT/harness && cp -r /verif/harness/src /verif/harness/Cargo.toml /verif/harness/Cargo.lock /verif/harness/.cargo $ALT/harness/ || exit 2
fi
# keep the scratch harness in step with /verif/harness
rsync -a --delete /verif/harness/src/ $ALT/harness/src/ && cp /verif/harness/Cargo.lock $ALT/harness/ && sed "s#/repo/#$ALT/repo/#g" /verif/harness/Cargo.toml > $ALT/harness/Cargo.toml
cd $ALT/repo && git checkout -q --detach $(git -C /repo rev-parse HEAD) && git reset -q --hard && git clean -qfd -e target || exit 2
if ! git apply "$PATCH" 2>/dev/null; then
  # (never patch with fuzz: it can silently put the hunk in the wrong place)  the change rewrites code around the cfg-guarded hook lines: take the touched files as they were before the hook commits
  # (the hooks in those files are lost, exactly as they would be in such a rewrite) and apply the change to that
  git reset -q --hard; find . \( -name '*.orig' -o -name '*.rej' \) -not -path './target/*' -delete
  for f in $(grep -E '^\+\+\+ b/' "$PATCH" | sed 's#^+++ b/##'); do git show 3e8c7e9:"$f" > "$f" 2>/dev/null; done
  git apply "$PATCH" || { echo "patch does not apply"; git reset -q --hard; exit 2; }
  echo "NOTE applied on the pre-hook version of the touched files (hooks in those files dropped)"
fi
find . -name '*.orig' -not -path './target/*' -delete
(cargo build --offline -q 2>&1 | grep -E '^error' | head -3)
cd /verif
export VERIF_REPO=$ALT/repo VERIF_HARNESS_DIR=$ALT/harness VERIF_EVIDENCE_DIR=$ALT/evidence VERIF_REPLAY_DIR=$ALT/replays
mkdir -p $ALT/evidence $ALT/replays
for p in "$@"; do
  out=$(bin/check $p --tier ${TIER:-quick} 2>&1); rc=$?
  echo "== $p exit=$rc $(echo "$out" | grep -c '^VIOLATION') violation line(s)"
  echo "$out" | grep -E '^VIOLATION|^  what|TOOL-ERROR|HARNESS' | head -6
done
cd $ALT/repo && git reset -q --hard && git clean -qfd -e target
