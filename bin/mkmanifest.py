#!/usr/bin/env python3
"""Regenerates /verif/MANIFEST.json from the table below (kept in one place so it stays valid)."""
import json, subprocess

PROPS = [json.loads(l)["id"] for l in open("/verif/properties.jsonl")]

SESSION_NOTE = ("Trusted base: the transcription of MPD's idle/noidle/command-list rules in spec/World.tla; TLC; the deterministic tokio test runtime. "
                "The exhaustive result is a fact about Loop.tla (small scope); the real code is judged only by the property monitors evaluated by TLC on recorded executions.")

WIRE_NOTE = ("Trusted base: RefDecode / Encode in spec/Wire.tla as the reading of MPD's response grammar; TLC. The exhaustive all-segmentations result is a fact about Receive.tla; "
             "the real code is judged by TLC on recorded executions (no oracle in the Rust harness).")

CODEC_NOTE = ("Trusted base: the transcriptions of MPD's util/Tokenizer.cxx, song/Filter.cxx and of the command reference in spec/Tokenizer.tla, FilterGrammar.tla, Commands.tla "
              "(written from knowledge of MPD; no MPD binary or source is available in the sandbox). The specification models the PEER, not the function under test, so any output the peer reads correctly is accepted.")

TYPED_NOTE = ("Trusted base: spec/Typed.tla (reply semantics written from the MPD protocol reference) and TLC. The Rust harness only builds the value through the public API and projects it to JSON; "
              "states/transitions in the evidence count records evaluated by TLC, not an abstract state space.")

CHECKS = {
 "C01": dict(level="model_checking", design_ref="DESIGN.md 6 (C01), 3.3",
   text="Loop.tla (client loop as coded || MPD server || pipe || callers || timer) is model-checked exhaustively in a small scope against the C01 monitors of World.tla (reply identity, per-caller order at the server, failed-list shape, cancel non-interference); environment schedules generated from the model by TLC plus seeded random ones are replayed into the real mpd_client::Client and every recorded trace is validated by TLC against the same monitors (SessionTrace.tla).",
   technique="TLA+ model checking (TLC) of Loop.tla + TLC trace validation of real-client executions", note=SESSION_NOTE),
 "C04": dict(level="model_checking", design_ref="DESIGN.md 6 (C04), 7.2",
   text="As C01 with server-side changes at every point; the monitor keeps every interpretation of the observed events that is consistent with what the server reported (exactly once, in order, verbatim names). Loop_ideal.cfg shows the named deviation DropPartialReply (F-C04-2, known finding) is the only source of loss; Loop_mut_firstonly.cfg (the code before fix F-C04-1) must fail.",
   technique="TLA+ model checking (TLC) of Loop.tla + TLC trace validation of real-client executions", note=SESSION_NOTE),
 "C05": dict(level="model_checking", design_ref="DESIGN.md 6 (C05)",
   text="The byte stream the real client writes is tokenized by the specification's model of MPD's request tokenizer and fed to the server model: idle first, noidle only while the server waits, never a command while it waits, at most one exchange outstanding, idle again after the re-idle delay. Exhaustive on Loop.tla (incl. the noidle/changed race), validated on recorded executions.",
   technique="TLA+ model checking (TLC) of Loop.tla + TLC trace validation of real-client executions", note=SESSION_NOTE),
 "C08": dict(level="model_checking", design_ref="DESIGN.md 6 (C08)",
   text="Loop_faults: one fault of each kind (peer close / cut at every half-line, persistent read error, persistent write error, garbage) injected at every state of the model; monitors: every request resolves (with its reply iff completely received), closed flag, event stream ends after <= 1 closing event, unclean end surfaced, transport released. Fault schedules from the model and random ones are replayed into the real client and validated by TLC.",
   technique="TLA+ model checking with fault enumeration (TLC) + TLC trace validation of real-client executions", note=SESSION_NOTE),
 "C02": dict(level="model_checking", design_ref="DESIGN.md 6 (C02), 3.5",
   text="Receive.tla (transcription of parser.rs' nom streaming combinators, ResponseBuilder and both receive loops with their buffer bookkeeping) is model-checked for EVERY segmentation of every stream of the configuration, both flavours, against the independent line-based reference RefDecode of Wire.tla; streams TLC derives from abstract responses plus truncated/mutated/large ones are fed in dictated read sizes to the real Connection and AsyncConnection and TLC compares the recorded outcomes with RefDecode of the recorded bytes and across segmentations/flavours.",
   technique="TLA+ model checking (TLC) of Receive.tla over all segmentations + TLC trace validation of real receive() executions", note=WIRE_NOTE),
 "C03": dict(level="model_checking", design_ref="DESIGN.md 6 (C03), 3.5",
   text="The oracle is the ENCODER: TLC enumerates abstract responses (frames, field values such as 'OK', 'ACK ..', 'binary: 3', payloads with LF/'OK\\n'/NUL/0xFF, list and single form, sequences), encodes them with Wire.tla's Encode and checks that the real connections decode exactly those responses followed by a clean end, under segmentation; exhaustive over all segmentations on Receive.tla.",
   technique="TLA+ model checking (TLC) of Receive.tla + TLC validation of real decodings against the spec's encoder", note=WIRE_NOTE),
 "C09": dict(level="model_checking", design_ref="DESIGN.md 6 (C09), 7.1 F-C09-1",
   text="Receive.tla makes the preconditions of the buffer operations explicit (a violated split_off precondition is the outcome PANIC); all single-edit mutations, truncations and numeric edge lines are model-checked for every segmentation (Receive_mut_sync.cfg = the code before fix F-C09-1 must fail). Against the real code: mutated streams, byte soup, edge lines and bad greetings; receive is called until the first terminal outcome AND once more; panics, hangs (read limit), fabricated data are violations.",
   technique="TLA+ model checking (TLC) of Receive.tla + TLC trace validation of real receive()/connect() executions on malformed input", note=WIRE_NOTE),
 "C10": dict(level="model_checking", design_ref="DESIGN.md 6 (C10)",
   text="Every cut position of well-formed streams (TLC-encoded abstract responses) and of the greeting, under segmentation, both flavours: responses before the cut delivered, clean end iff the cut is a response boundary, unexpected EOF otherwise; exhaustive over all truncations x segmentations on Receive.tla (the two EOF predicates are different code).",
   technique="TLA+ model checking (TLC) of Receive.tla + TLC trace validation of real receive()/connect() executions on truncated streams", note=WIRE_NOTE),
 "C06": dict(level="model_checking", design_ref="DESIGN.md 6 (C06), 7.3",
   text="Exhaustive over a class alphabet: every command line with string arguments of bounded length over {a, SP, TAB, CR, 0x01, \", ', \\, NUL, 2-byte UTF-8} (singles, pairs, triples) and every builder-accepted short name is built through the real Command API, written by the real Connection::send, and TLC applies the specification's transcription of MPD's request tokenizer to the bytes: name and arguments must come back byte for byte. Failures are attributed per argument to a cause computed by the specification (F-C06-1 known finding). In addition EncoderMC.tla model-checks the encoder AS CODED (Encoder.tla: escape_argument, validation and roll-back of add_argument, list rendering, filter rendering) composed with the peer's tokenizer / filter grammar over every builder / filter history within small bounds: the known causes are exactly the failures, the repaired encoder passes strictly; Encoder.tla is bound to the code byte for byte on every recorded case (drift note).",
   technique="TLA+ model checking (TLC) of EncoderMC.tla (encoder as coded x MPD tokenizer) + TLC evaluation of the tokenizer model on real encoder output (exhaustive over class alphabet), byte-level model binding", note=CODEC_NOTE),
 "C07": dict(level="model_checking", design_ref="DESIGN.md 6 (C07)",
   text="All short names over a class alphabet plus framing-word look-alikes, all short sequences of add_argument calls with LF-bearing arguments over string and raw (user-defined) renderers, mixes of all Argument types and command lists: names outside [A-Za-z0-9_]+ or framing words rejected, LF arguments rejected, a rejected argument leaves command and rendered bytes unchanged, every command exactly one LF-terminated line, list output = begin + N lines + end; judged by TLC on the bytes the real send/send_list wrote. In addition EncoderMC.tla model-checks the encoder AS CODED (Encoder.tla: escape_argument, validation and roll-back of add_argument, list rendering, filter rendering) composed with the peer's tokenizer / filter grammar over every builder / filter history within small bounds: the known causes are exactly the failures, the repaired encoder passes strictly; Encoder.tla is bound to the code byte for byte on every recorded case (drift note).",
   technique="TLA+ model checking (TLC) of EncoderMC.tla (builder as coded: one line, roll-back, name contract) + TLC evaluation of the builder contract and MPD tokenizer on real builder/encoder output", note=CODEC_NOTE),
 "C11": dict(level="model_checking", design_ref="DESIGN.md 6 (C11), 7.4",
   text="All small filter trees (every leaf constructor and operator, NOT, AND, nesting, both association orders) x every short value string over {a, SP, \", ', \\, (, ), 2-byte UTF-8} plus look-alike words are built with the real Filter API and sent in find/count/list; TLC tokenizes the bytes (layer 1) and parses the argument with the transcription of MPD's filter-expression grammar (layer 2): the parsed expression must equal the mirror tree up to AND-associativity, byte-identical values. F-C11-1 known finding by cause signature. In addition EncoderMC.tla model-checks the encoder AS CODED (Encoder.tla: escape_argument, validation and roll-back of add_argument, list rendering, filter rendering) composed with the peer's tokenizer / filter grammar over every builder / filter history within small bounds: the known causes are exactly the failures, the repaired encoder passes strictly; Encoder.tla is bound to the code byte for byte on every recorded case (drift note).",
   technique="TLA+ model checking (TLC) of EncoderMC.tla (filter rendering as coded x MPD tokenizer x filter grammar) + TLC evaluation of both peer layers on real encoder output, byte-level model binding", note=CODEC_NOTE),
 "C15": dict(level="model_checking", design_ref="DESIGN.md 6 (C15), Appendix B",
   text="Commands.tla is the expectation table written from the MPD protocol reference (constructor path -> documented word and argument meanings). Every constructor/builder path x boundary parameter pools is constructed by the real API; TLC tokenizes the request and checks that the arguments DENOTE the same values: ranges as position sets with saturation at MAX, durations within millisecond rounding, clamped volume, whole-second crossfade, sort before window, each string parameter one token in position. Commands of definitions.rs without a table row are reported as a coverage gap.",
   technique="TLC evaluation of a TLA+ command table + MPD tokenizer on real command renderings (table-driven)", note=CODEC_NOTE),
 "C12": dict(level="model_checking", design_ref="DESIGN.md 6 (C12), 7.1",
   text="Every predefined command with a typed response and typed lists (tuple arity 1..8, Vec) are fed replies built from a grammar that deliberately leaves the expected shape (expected / unexpected / other-case field names, boundary pools 2^64-1, 2^64, 1e400, -0, NaN, inf, ' 1', empty, '='-less stickers, any frame count, optional payload) through the real parser and the real Command::response / CommandList::responses under catch_unwind, every public accessor of the value is read; two builds (default, chrono). A panic is a violation; where Typed.tla defines the value it is compared as well.",
   technique="TLC evaluation of the TLA+ reply semantics (Typed.tla) on real typed conversions; exploration of off-shape replies for totality", note=TYPED_NOTE),
 "C13": dict(level="model_checking", design_ref="DESIGN.md 6 (C13)",
   text="Framing: raw lists of N = 0..9, 50, 200 commands assembled via new/command/add/extend, the bytes of the real send_list compared by TLC with begin + the N rendered command lines + end (bare command for N = 1). Pairing: typed tuples of arity 1..8 over four command kinds with distinguishable replies and vectors of 0..9 commands; TLC checks that the i-th typed value is what Typed.tla reads from the frame of the i-th command, that an empty typed list writes nothing and yields an empty result.",
   technique="TLC evaluation of list framing and positional pairing (TLA+) on real CommandList rendering / responses()", note=TYPED_NOTE),
 "C14": dict(level="model_checking", design_ref="DESIGN.md 6 (C14)",
   text="Typed.tla defines what a song listing means (one song per file entry, attributes and tags between its file line and the next entry, directory / playlist entries with their own Last-Modified skipped, duration over legacy Time in either order, tags per canonical name in wire order). Listings with random subsets / orders / repetitions and boundary values go through the real parser and Queue, QueueRange, CurrentSong, Find, GetPlaylist, ListAllIn; TLC compares the projected songs with the specification's reading of the recorded lines; out-of-domain attribute values must yield an error.",
   technique="TLC evaluation of the TLA+ listing semantics (Typed.tla) on real typed conversions", note=TYPED_NOTE),
 "C16": dict(level="model_checking", design_ref="DESIGN.md 6 (C16)",
   text="As C14 for status (optional-field subsets, shuffled order, enum spellings, boundary numbers), stats, count (plain / grouped), list (plain / grouped by 1-2 tags, repeated and changing keys), listplaylists, sticker get/list/find (values containing '='), channels, messages, tag types, update / rescan, replay gain status, addid, album art: exact values, None iff omitted, out-of-domain value => error (Typed.tla, from the MPD protocol reference).",
   technique="TLC evaluation of the TLA+ reply semantics (Typed.tla) on real typed conversions", note=TYPED_NOTE),
 "C19": dict(level="model_checking", design_ref="DESIGN.md 6 (C19), 7.1 F-C19-1",
   text="Frame.tla is the abstract ordered multimap (+ optional payload); FrameGen.tla lets TLC explore it under every operation (find, get, take_binary, fields_len, is_empty, has_binary, binary, next/next_back patterns) on every small frame and emits one witness operation path per explored transition; each is applied to a real Frame built by the real parser and TLC replays the recorded results through the model step by step (FrameTrace.tla); responses: frames-then-error with exact size hints from either end; deep case (2*10^5 removed fields, 2 MiB stack, child process) for F-C19-1.",
   technique="TLA+ model exploration (TLC) of the abstract frame, one implementation test per model transition, TLC replay of recorded results", note="Trusted base: Frame.tla (the multimap is small enough to read in full); frames can only be built through the real parser."),
 "C20": dict(level="model_checking", design_ref="DESIGN.md 6 (C20)",
   text="Finite and exhaustive in the thorough tier: Names.tla holds the documented tag and subsystem names; NamesGen.tla enumerates candidate strings (every name in 4 casings, all strings of length <= 3 over a class alphabet); the harness parses each and compares EVERY pair of values (named, parsed, catch-all) with ==, cmp, hash, HashMap / BTreeMap / HashSet; TLC checks each record against equality / order of protocol names and the parse rules.",
   technique="TLC evaluation of the TLA+ name tables and parse rules on real Tag / Subsystem behaviour (exhaustive pairs)", note="Trusted base: the name tables copied from the MPD documentation into spec/Names.tla."),
 "C17": dict(level="model_checking", design_ref="DESIGN.md 6 (C17)",
   text="AlbumArt.tla (Client::album_art as coded composed with the server's picture rules) is checked exhaustively for every picture size, chunk limit, source combination, MIME presence and scripted error within bounds (invariants + termination); seeded sessions with concrete sizes {0, 1, K-1, K, K+1, 3K+1, 4095, 4096, 4097, 20000}, payloads full of protocol look-alikes, concurrent notifications and a second caller run through the real client and loop; TLC checks the request sequence (offset = bytes received so far, fallback exactly on empty / ACK 5), length, source identity, MIME and error propagation on the recorded trace.",
   technique="TLA+ model checking (TLC) of AlbumArt.tla + TLC trace validation of real-client executions", note=SESSION_NOTE + " Byte comparison of the reassembled picture with the original is the one projection computed in the Rust harness (equality flag + length); chunk digests are recomputed by TLC."),
 "C18": dict(level="model_checking", design_ref="DESIGN.md 6 (C18)",
   text="Handshake.tla (do_connect as coded) is checked exhaustively against World.tla's C18 monitors: greeting kinds x segmentations x password x verdicts x close at every point. Against the real code: Client::connect / connect_with_password / connect_with_password_opt over the mock transport with greeting variants (valid versions of several shapes, wrong prefix, empty version, invalid UTF-8, overlong, cut) and scripted verdicts, plus protocol-level Connection::connect / AsyncConnection::connect on greeting strings and their mutations under segmentation; judged by TLC (SessionTrace.tla, WireTrace.tla with Bytes.tla's GreetingRef).",
   technique="TLA+ model checking (TLC) of Handshake.tla + TLC trace validation of real connect executions", note=SESSION_NOTE),
}

def main():
    checks = []
    for p in PROPS:
        if p not in CHECKS:
            continue
        c = CHECKS[p]
        checks.append({
            "property_id": p,
            "quick_cmd": f"bin/check {p} --tier quick",
            "thorough_cmd": f"bin/check {p} --tier thorough",
            "evidence_file": f"/verif/evidence/{p}.json",
            "replay_cmd_template": f"bin/check {p} --replay {{path}}",
            "engine": "tlc",
            "level_claimed": {"category": c["level"], "text": c["text"], "design_ref": c["design_ref"]},
            "level_note": c["note"],
            "technique": c["technique"],
        })
    hooks_commits = subprocess.run(["git", "-C", "/repo", "log", "--format=%h %s", "--grep=^verif hook"], capture_output=True, text=True).stdout.strip().split("\n")
    m = {
        "version": 1,
        "setup_cmd": "bin/setup",
        "hooks": {"guard": "mpd_client_verif",
                  "enable": "rustc --cfg mpd_client_verif (set in /verif/harness/.cargo/config.toml rustflags; the harness is a separate workspace with path dependencies on /repo)",
                  "baseline_off_cmd": "cd /repo && cargo test --workspace --no-fail-fast --offline",
                  "source_commits": [c for c in hooks_commits if c],
                  "add_only": True},
        "engines": [{"name": "tlc", "path": "/verif/spec", "serves_properties": [c["property_id"] for c in checks],
                     "kind_free_text": "explicit TLA+ specification checked with TLC (exhaustive design check, schedule/case generation, trace validation of the real code via the Rust harness /verif/harness)"}],
        "checks": checks,
        "not_applicable": [{"property_id": p, "reason": "check under construction in this round; not claimed yet"} for p in PROPS if p not in CHECKS],
        "notes": "Exit codes: 0 held / 1 VIOLATION line / 2 tool or harness trouble. Known findings: /verif/known_findings.json (open: F-C04-2 under C04 and C08, F-C06-1, F-C11-1). "
                 "Hooks: four add-only commits in /repo guarded by cfg(mpd_client_verif); the only edited existing line is the check-cfg list of [lints.rust] in mpd_protocol/Cargo.toml "
                 "(so that a normal build stays free of unexpected-cfg warnings); property verdicts need no hooks, they only feed the hook-level bindings LoopTrace.tla (client loop) and ReceiveTrace.tla (receive loops' buffer bookkeeping); drift = NOTE, never a verdict. "
                 "Ten fix: commits repaired genuine defects (listed as fixed: in known_findings.json). DESIGN.md section 12 is the build log.",
    }
    json.dump(m, open("/verif/MANIFEST.json", "w"), indent=1)

main()
