#!/usr/bin/env python3
"""Rewrites the seeded-change table in DESIGN.md (between the SEEDED_TABLE markers) from seeded/*/meta.json."""
import glob, json, re
rows = []
for m in sorted(glob.glob("/verif/seeded/*/meta.json")):
    d = json.load(open(m))
    name = m.split("/")[-2]
    readme = open(m.replace("meta.json", "README.md")).read()
    what = d.get("summary") or ""
    res = d.get("checks_run_quick", {})
    caught = [p for p, r in res.items() if r["exit"] == 1]
    missed = [p for p, r in res.items() if r["exit"] == 0]
    other = [p for p, r in res.items() if r["exit"] not in (0, 1)]
    rows.append(f"| `{name}` | {what} | {', '.join(caught) or '-'} | {', '.join(missed) or '-'}{(' (tool error: ' + ', '.join(other) + ')') if other else ''} | {'yes' if d['confirmed'] else 'NO'} |")
table = "| change | what it does / what it needs | caught by (exit 1) | run but not alarmed | confirmed |\n|---|---|---|---|---|\n" + "\n".join(rows)
p = "/verif/DESIGN.md"
s = open(p).read()
if "SEEDED_TABLE" in s and "<!-- SEEDED_TABLE_BEGIN -->" not in s:
    s = s.replace("SEEDED_TABLE", "<!-- SEEDED_TABLE_BEGIN -->\n<!-- SEEDED_TABLE_END -->", 1)
s = re.sub(r"<!-- SEEDED_TABLE_BEGIN -->.*?<!-- SEEDED_TABLE_END -->", lambda _: "<!-- SEEDED_TABLE_BEGIN -->\n" + table + "\n<!-- SEEDED_TABLE_END -->", s, flags=re.S)
open(p, "w").write(s)
print(len(rows), "rows")
