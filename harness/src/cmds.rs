//! Predefined-command driver (C15): constructs every predefined command through its public
//! constructor / builder path from an abstract parameter record and records the request bytes.

use crate::codec::{bytes_of, wire_of};
use crate::filt;
use mpd_client::commands::*;
use mpd_client::filter::Filter;
use mpd_client::protocol::command::Command as RawCommand;
use mpd_client::tag::Tag;
use serde_json::{json, Value};
use std::io::Write;
use std::ops::Bound;
use std::panic::{catch_unwind, AssertUnwindSafe};
use std::time::Duration;

fn st(p: &Value, k: &str) -> String {
    String::from_utf8(bytes_of(&p[k])).expect("utf8 string parameter")
}
fn num(p: &Value, k: &str) -> u64 {
    p[k].as_str().unwrap_or("0").parse::<u64>().expect("numeric parameter")
}
fn us(p: &Value, k: &str) -> usize {
    num(p, k) as usize
}
fn dur(p: &Value) -> Duration {
    Duration::new(num(p, "secs"), p["nanos"].as_u64().unwrap_or(0) as u32)
}
fn bound_us(b: &Value) -> Bound<usize> {
    let n = b[1].as_str().unwrap_or("0").parse::<u64>().unwrap() as usize;
    match b[0].as_str().unwrap_or("unb") {
        "inc" => Bound::Included(n),
        "exc" => Bound::Excluded(n),
        _ => Bound::Unbounded,
    }
}
fn bound_pos(b: &Value) -> Bound<SongPosition> {
    match bound_us(b) {
        Bound::Included(n) => Bound::Included(SongPosition(n)),
        Bound::Excluded(n) => Bound::Excluded(SongPosition(n)),
        Bound::Unbounded => Bound::Unbounded,
    }
}
fn rpos(p: &Value) -> (Bound<SongPosition>, Bound<SongPosition>) {
    (bound_pos(&p["lo"]), bound_pos(&p["hi"]))
}
fn rus(p: &Value) -> (Bound<usize>, Bound<usize>) {
    (bound_us(&p["lo"]), bound_us(&p["hi"]))
}
fn tags(p: &Value) -> Vec<Tag> {
    p["tags"].as_array().map(|a| a.iter().map(filt::tag_of).collect()).unwrap_or_default()
}
fn filter(p: &Value) -> Filter {
    filt::build(&p["filter"])
}

/// Returns the raw command for constructor path `ctor`, or None if the path is unknown to this dispatcher.
pub fn dispatch(ctor: &str, p: &Value) -> Option<RawCommand> {
    let s1 = st(p, "s1");
    let s2 = st(p, "s2");
    let s3 = st(p, "s3");
    let b = p["b"].as_bool().unwrap_or(false);
    let e = p["e"].as_u64().unwrap_or(0);
    Some(match ctor {
        "ClearQueue" => ClearQueue.command(),
        "Next" => Next.command(),
        "Ping" => Ping.command(),
        "Previous" => Previous.command(),
        "Stop" => Stop.command(),
        "Status" => Status.command(),
        "Stats" => Stats.command(),
        "ReplayGainStatus" => ReplayGainStatus.command(),
        "CurrentSong" => CurrentSong.command(),
        "GetPlaylists" => GetPlaylists.command(),
        "GetEnabledTagTypes" => GetEnabledTagTypes.command(),
        "ReadChannelMessages" => ReadChannelMessages.command(),
        "ListChannels" => ListChannels.command(),
        "ClearPlaylist" => ClearPlaylist(&s1).command(),
        "DeletePlaylist" => DeletePlaylist(&s1).command(),
        "SaveQueueAsPlaylist" => SaveQueueAsPlaylist(&s1).command(),
        "GetPlaylist" => GetPlaylist(&s1).command(),
        "SubscribeToChannel" => SubscribeToChannel(&s1).command(),
        "UnsubscribeFromChannel" => UnsubscribeFromChannel(&s1).command(),
        "SendChannelMessage" => SendChannelMessage::new(&s1, &s2).command(),
        "SetConsume" => SetConsume(b).command(),
        "SetPause" => SetPause(b).command(),
        "SetRandom" => SetRandom(b).command(),
        "SetRepeat" => SetRepeat(b).command(),
        "SetSingle" => SetSingle(match e {
            0 => SingleMode::Disabled,
            1 => SingleMode::Enabled,
            _ => SingleMode::Oneshot,
        })
        .command(),
        "SetReplayGainMode" => SetReplayGainMode(match e {
            0 => ReplayGainMode::Off,
            1 => ReplayGainMode::Track,
            2 => ReplayGainMode::Album,
            _ => ReplayGainMode::Auto,
        })
        .command(),
        "SetVolume" => SetVolume(num(p, "n1") as u8).command(),
        "Crossfade" => Crossfade(dur(p)).command(),
        "SetBinaryLimit" => SetBinaryLimit(us(p, "n1")).command(),
        "Queue" => Queue.command(),
        "QueueAll" => Queue::all().command(),
        "QueueSongPos" => Queue::song(SongPosition(us(p, "n1"))).command(),
        "QueueSongId" => Queue::song(SongId(num(p, "n1"))).command(),
        "QueueRange" => Queue::range(rpos(p)).command(),
        "QueueRangeSongPos" => QueueRange::song(SongPosition(us(p, "n1"))).command(),
        "QueueRangeSongId" => QueueRange::song(SongId(num(p, "n1"))).command(),
        "QueueRangeRange" => QueueRange::range(rpos(p)).command(),
        "PlayCurrent" => Play::current().command(),
        "PlayPos" => Play::song(SongPosition(us(p, "n1"))).command(),
        "PlayId" => Play::song(SongId(num(p, "n1"))).command(),
        "SeekToPos" => SeekTo(Song::Position(SongPosition(us(p, "n1"))), dur(p)).command(),
        "SeekToId" => SeekTo(Song::Id(SongId(num(p, "n1"))), dur(p)).command(),
        "SeekAbs" => Seek(SeekMode::Absolute(dur(p))).command(),
        "SeekFwd" => Seek(SeekMode::Forward(dur(p))).command(),
        "SeekBack" => Seek(SeekMode::Backward(dur(p))).command(),
        "ShuffleAll" => Shuffle::all().command(),
        "ShuffleRange" => Shuffle::range(rpos(p)).command(),
        "AddUri" => Add::uri(&s1).command(),
        "AddAt" => Add::uri(&s1).at(us(p, "n1")).command(),
        "AddBefore" => Add::uri(&s1).before_current(us(p, "n1")).command(),
        "AddAfter" => Add::uri(&s1).after_current(us(p, "n1")).command(),
        "DeleteId" => Delete::id(SongId(num(p, "n1"))).command(),
        "DeletePosition" => Delete::position(SongPosition(us(p, "n1"))).command(),
        "DeleteRange" => Delete::range(rpos(p)).command(),
        "MoveIdTo" => Move::id(SongId(num(p, "n1"))).to_position(SongPosition(us(p, "n2"))).command(),
        "MoveIdAfter" => Move::id(SongId(num(p, "n1"))).after_current(us(p, "n2")).command(),
        "MoveIdBefore" => Move::id(SongId(num(p, "n1"))).before_current(us(p, "n2")).command(),
        "MovePosTo" => Move::position(SongPosition(us(p, "n1"))).to_position(SongPosition(us(p, "n2"))).command(),
        "MovePosAfter" => Move::position(SongPosition(us(p, "n1"))).after_current(us(p, "n2")).command(),
        "MovePosBefore" => Move::position(SongPosition(us(p, "n1"))).before_current(us(p, "n2")).command(),
        "MoveRangeTo" => Move::range(rpos(p)).to_position(SongPosition(us(p, "n2"))).command(),
        "MoveRangeAfter" => Move::range(rpos(p)).after_current(us(p, "n2")).command(),
        "MoveRangeBefore" => Move::range(rpos(p)).before_current(us(p, "n2")).command(),
        "Find" => Find::new(filter(p)).command(),
        "FindSort" => Find::new(filter(p)).sort(filt::tag_of(&p["tags"][0])).command(),
        "FindWindow" => Find::new(filter(p)).window(rus(p)).command(),
        "FindSortWindow" => Find::new(filter(p)).sort(filt::tag_of(&p["tags"][0])).window(rus(p)).command(),
        "FindWindowSort" => Find::new(filter(p)).window(rus(p)).sort(filt::tag_of(&p["tags"][0])).command(),
        "List" => List::new(filt::tag_of(&p["tags"][0])).command(),
        "ListFilter" => List::new(filt::tag_of(&p["tags"][0])).filter(filter(p)).command(),
        "ListGroup1" => List::new(filt::tag_of(&p["tags"][0])).group_by([filt::tag_of(&p["tags"][1])]).command(),
        "ListGroup2" => List::new(filt::tag_of(&p["tags"][0])).group_by([filt::tag_of(&p["tags"][1]), filt::tag_of(&p["tags"][2])]).command(),
        "ListFilterGroup1" => List::new(filt::tag_of(&p["tags"][0])).filter(filter(p)).group_by([filt::tag_of(&p["tags"][1])]).command(),
        "Count" => Count::new(filter(p)).command(),
        "CountGroupBy" => Count::new(filter(p)).group_by(filt::tag_of(&p["tags"][0])).command(),
        "CountGrouped" => CountGrouped::new(filt::tag_of(&p["tags"][0])).command(),
        "CountGroupedFilter" => CountGrouped::new(filt::tag_of(&p["tags"][0])).filter(filter(p)).command(),
        "RenamePlaylist" => RenamePlaylist::new(&s1, &s2).command(),
        "LoadPlaylist" => LoadPlaylist::name(&s1).command(),
        "LoadPlaylistRange" => LoadPlaylist::name(&s1).range(rus(p)).command(),
        "AddToPlaylist" => AddToPlaylist::new(&s1, &s2).command(),
        "AddToPlaylistAt" => AddToPlaylist::new(&s1, &s2).at(us(p, "n1")).command(),
        "RemoveFromPlaylistPosition" => RemoveFromPlaylist::position(&s1, us(p, "n1")).command(),
        "RemoveFromPlaylistRange" => RemoveFromPlaylist::range(&s1, rpos(p)).command(),
        "MoveInPlaylist" => MoveInPlaylist::new(&s1, us(p, "n1"), us(p, "n2")).command(),
        "ListAllInRoot" => ListAllIn::root().command(),
        "ListAllInDirectory" => ListAllIn::directory(&s1).command(),
        "AlbumArt" => AlbumArt::new(&s1).command(),
        "AlbumArtOffset" => AlbumArt::new(&s1).offset(us(p, "n1")).command(),
        "AlbumArtEmbedded" => AlbumArtEmbedded::new(&s1).command(),
        "AlbumArtEmbeddedOffset" => AlbumArtEmbedded::new(&s1).offset(us(p, "n1")).command(),
        "TagTypesEnableAll" => TagTypes::enable_all().command(),
        "TagTypesDisableAll" => TagTypes::disable_all().command(),
        "TagTypesEnable" => TagTypes::enable(&tags(p)).command(),
        "TagTypesDisable" => TagTypes::disable(&tags(p)).command(),
        "StickerGet" => StickerGet::new(&s1, &s2).command(),
        "StickerSet" => StickerSet::new(&s1, &s2, &s3).command(),
        "StickerDelete" => StickerDelete::new(&s1, &s2).command(),
        "StickerList" => StickerList::new(&s1).command(),
        "StickerFind" => StickerFind::new(&s1, &s2).command(),
        "StickerFindEq" => StickerFind::new(&s1, &s2).where_eq(&s3).command(),
        "StickerFindGt" => StickerFind::new(&s1, &s2).where_gt(&s3).command(),
        "StickerFindLt" => StickerFind::new(&s1, &s2).where_lt(&s3).command(),
        "Update" => Update::new().command(),
        "UpdateUri" => Update::new().uri(&s1).command(),
        "Rescan" => Rescan::new().command(),
        "RescanUri" => Rescan::new().uri(&s1).command(),
        _ => return None,
    })
}

/// Names of all `impl Command for X` in definitions.rs (scanned from the source at run time) so that a
/// command without a dispatcher row / table row shows up as a coverage gap in the evidence.
pub fn scan_definitions() -> Vec<String> {
    let root = std::env::var("VERIF_REPO").unwrap_or_else(|_| "/repo".to_string());
    let src = std::fs::read_to_string(format!("{root}/mpd_client/src/commands/definitions.rs")).unwrap_or_default();
    let mut out = vec![];
    for l in src.lines() {
        let l = l.trim();
        if let Some(rest) = l.strip_prefix("impl") {
            if let Some(i) = rest.find("Command for ") {
                let name: String = rest[i + 12..].chars().take_while(|c| c.is_alphanumeric() || *c == '_').collect();
                if !name.is_empty() && !name.starts_with('$') {
                    out.push(name);
                }
            }
        }
        for mac in ["argless_command!(", "single_arg_command!("] {
            if let Some(rest) = l.strip_prefix(mac) {
                let name: String = rest.chars().take_while(|c| c.is_alphanumeric() || *c == '_').collect();
                if !name.is_empty() {
                    out.push(name);
                }
            }
        }
    }
    out.sort();
    out.dedup();
    out
}

pub fn run_case(c: &Value) -> Value {
    let ctor = c["ctor"].as_str().unwrap_or("");
    let r = catch_unwind(AssertUnwindSafe(|| dispatch(ctor, &c["p"]).map(|cmd| wire_of(&cmd))));
    match r {
        Ok(Some(w)) => json!({"e": "pcmd", "id": c["id"], "ctor": ctor, "p": c["p"], "wire": w, "panicked": false}),
        Ok(None) => json!({"e": "unknown_ctor", "id": c["id"], "ctor": ctor}),
        Err(_) => json!({"e": "pcmd", "id": c["id"], "ctor": ctor, "p": c["p"], "wire": [], "panicked": true}),
    }
}

pub fn main(args: &[String]) -> i32 {
    if args[0] == "--scan" {
        println!("{}", json!(scan_definitions()));
        return 0;
    }
    let input = std::fs::read_to_string(&args[0]).expect("case file");
    let out = std::fs::File::create(&args[1]).expect("out file");
    let mut out = std::io::BufWriter::new(out);
    let mut n = 0;
    for l in input.lines() {
        if l.trim().is_empty() {
            continue;
        }
        let c: Value = serde_json::from_str(l).expect("case json");
        writeln!(out, "{}", run_case(&c)).unwrap();
        n += 1;
    }
    out.flush().unwrap();
    eprintln!("cmds: {n} cases");
    0
}
