//! mpdv: conformance harness binding the TLA+ specification in /verif/spec to the real
//! mpd_client / mpd_protocol code. Subcommands construct inputs and project results to ndjson;
//! all judging is done by TLC.

mod mock;
mod names;
mod cmds;
mod codec;
mod filt;
mod frame;
mod session;
mod typed;
mod wire;

use std::sync::atomic::{AtomicUsize, Ordering};

pub static PANICS: AtomicUsize = AtomicUsize::new(0);

fn main() {
    let args: Vec<String> = std::env::args().collect();
    if args.len() < 2 {
        eprintln!("usage: mpdv <session|...> args");
        std::process::exit(2);
    }
    let quiet = std::env::var("MPDV_PANIC_TRACE").is_err();
    let default_hook = std::panic::take_hook();
    std::panic::set_hook(Box::new(move |info| {
        PANICS.fetch_add(1, Ordering::SeqCst);
        if !quiet {
            default_hook(info);
        }
    }));
    let rest = &args[2..];
    let code = match args[1].as_str() {
        "session" => session::main(rest),
        "wire" => wire::main(rest),
        "codec" => codec::main(rest),
        "filter" => filt::main(rest),
        "cmds" => cmds::main(rest),
        "frame" => frame::main(rest),
        "names" => names::main(rest),
        "typed" => typed::main(rest),
        other => {
            eprintln!("unknown subcommand {other}");
            2
        }
    };
    std::process::exit(code);
}
