//! Byte-stream driver: feeds a stream in dictated read sizes to the real blocking `Connection`
//! and the real `AsyncConnection`, calls `receive` until the first terminal outcome and once more,
//! and records the outcomes. No oracle here: TLC judges the record against Wire.tla's RefDecode.

use mpd_client::protocol::{response::Response, AsyncConnection, Connection, MpdProtocolError};
use serde_json::{json, Value};
use std::collections::VecDeque;
use std::io::{self, Read, Write};
use std::panic::{catch_unwind, AssertUnwindSafe};
use std::pin::Pin;
use std::task::{Context, Poll};
use tokio::io::{AsyncRead, ReadBuf};

pub struct Chunks {
    chunks: VecDeque<Vec<u8>>,
    pub reads: usize,
    pub limit: usize,
    pub hang: bool,
    pend: bool,
    pended: bool,
    /// async only: while `held` is set, reads are Pending once `hold_after` chunks have been handed out (nothing more has arrived yet)
    hold_after: usize,
    handed: usize,
    held: std::sync::Arc<std::sync::atomic::AtomicBool>,
}

impl Chunks {
    pub fn new(chunks: Vec<Vec<u8>>, pend: bool) -> Chunks {
        let total: usize = chunks.iter().map(|c| c.len()).sum();
        Chunks { chunks: chunks.into_iter().filter(|c| !c.is_empty()).collect(), reads: 0, limit: 2 * total + chunks_len_guard(total), hang: false, pend, pended: false,
                 hold_after: usize::MAX, handed: 0, held: Default::default() }
    }
    fn take_chunk(&mut self, want: usize) -> io::Result<Vec<u8>> {
        self.reads += 1;
        if self.reads > self.limit {
            self.hang = true;
            return Err(io::Error::new(io::ErrorKind::Other, "harness: read limit exceeded (hang)"));
        }
        match self.chunks.front_mut() {
            None => Ok(vec![]),
            Some(front) => {
                let n = want.min(front.len());
                let d: Vec<u8> = front.drain(..n).collect();
                if front.is_empty() {
                    self.chunks.pop_front();
                    self.handed += 1;
                }
                Ok(d)
            }
        }
    }
}

fn chunks_len_guard(total: usize) -> usize {
    64 + total / 16
}

impl Read for Chunks {
    fn read(&mut self, buf: &mut [u8]) -> io::Result<usize> {
        let d = self.take_chunk(buf.len())?;
        buf[..d.len()].copy_from_slice(&d);
        Ok(d.len())
    }
}

// requests go into a sink: what is RECEIVED must not depend on whether (pipelined) requests are written in between
impl io::Write for Chunks {
    fn write(&mut self, buf: &[u8]) -> io::Result<usize> {
        Ok(buf.len())
    }
    fn flush(&mut self) -> io::Result<()> {
        Ok(())
    }
}

impl tokio::io::AsyncWrite for Chunks {
    fn poll_write(self: Pin<&mut Self>, _: &mut Context<'_>, b: &[u8]) -> Poll<io::Result<usize>> {
        Poll::Ready(Ok(b.len()))
    }
    fn poll_flush(self: Pin<&mut Self>, _: &mut Context<'_>) -> Poll<io::Result<()>> {
        Poll::Ready(Ok(()))
    }
    fn poll_shutdown(self: Pin<&mut Self>, _: &mut Context<'_>) -> Poll<io::Result<()>> {
        Poll::Ready(Ok(()))
    }
}

thread_local! {
    /// the case asks for a request to be written before every receive call (a pipelining user of the protocol layer)
    static SENDS: std::cell::Cell<bool> = const { std::cell::Cell::new(false) };
}
fn sends() -> bool {
    SENDS.with(|s| s.get())
}
fn ping() -> mpd_client::protocol::command::Command {
    mpd_client::protocol::command::Command::new("ping")
}

impl AsyncRead for Chunks {
    fn poll_read(mut self: Pin<&mut Self>, cx: &mut Context<'_>, buf: &mut ReadBuf<'_>) -> Poll<io::Result<()>> {
        if self.held.load(std::sync::atomic::Ordering::SeqCst) && self.handed >= self.hold_after {
            return Poll::Pending; // (nobody wakes this: the future is polled by hand and then dropped)
        }
        if self.pend && !self.pended {
            self.pended = true;
            cx.waker().wake_by_ref();
            return Poll::Pending;
        }
        self.pended = false;
        let d = self.take_chunk(buf.remaining())?;
        buf.put_slice(&d);
        Poll::Ready(Ok(()))
    }
}

pub fn resp_json(r: &Response) -> Value {
    let mut frames = vec![];
    let mut err = json!([]);
    for f in r.frames() {
        match f {
            Ok(f) => {
                let fields: Vec<Value> = f.fields().map(|(k, v)| json!([k.as_bytes(), v.as_bytes()])).collect();
                let bin = match f.binary() {
                    None => json!([]),
                    Some(b) => json!([b]),
                };
                frames.push(json!({"fields": fields, "bin": bin}));
            }
            Err(e) => {
                err = json!([e.code.to_string().as_bytes(), e.command_index.to_string().as_bytes(), e.current_command.as_deref().unwrap_or("").as_bytes(), e.message.as_bytes()]);
            }
        }
    }
    json!({"frames": frames, "err": err})
}

fn outcome(r: Result<Option<Response>, MpdProtocolError>) -> (String, Value) {
    let none = json!({"frames": [], "err": []});
    match r {
        Ok(Some(resp)) => ("resp".into(), resp_json(&resp)),
        Ok(None) => ("clean".into(), none),
        Err(MpdProtocolError::InvalidMessage) => ("invalid".into(), none),
        Err(MpdProtocolError::Io(e)) if e.kind() == io::ErrorKind::UnexpectedEof => ("ueof".into(), none),
        Err(MpdProtocolError::Io(e)) => (format!("io:{:?}", e.kind()), none),
    }
}

fn split(stream: &[u8], cuts: &[usize]) -> Vec<Vec<u8>> {
    let mut out = vec![];
    let mut prev = 0;
    for &c in cuts {
        let c = c.min(stream.len());
        if c > prev {
            out.push(stream[prev..c].to_vec());
            prev = c;
        }
    }
    if prev < stream.len() {
        out.push(stream[prev..].to_vec());
    }
    out
}

const GREETING: &[u8] = b"OK MPD 0.23.5\n";

thread_local! {
    /// hook events of the receive loops (rx_wait / rx_read) plus one "o" event per returned call, in program order
    static EVS: std::cell::RefCell<Vec<Value>> = const { std::cell::RefCell::new(Vec::new()) };
}

fn ev_out(t: &str) {
    EVS.with(|e| e.borrow_mut().push(json!({"e": "o", "n": 0, "f": 0, "b": 0, "p": 0, "t": t})));
}

fn hooks_begin() {
    EVS.with(|e| e.borrow_mut().clear());
    #[cfg(mpd_client_verif)]
    mpd_client::protocol::verif::set_sink(Some(Box::new(|ev, fields| {
        let get = |k: &str| fields.iter().find(|(n, _)| *n == k).map(|(_, v)| *v).unwrap_or(0);
        let v = match ev {
            "rx_wait" => json!({"e": "w", "n": 0, "f": get("filled"), "b": get("blen"), "p": get("inprog"), "t": ""}),
            "rx_read" => json!({"e": "r", "n": get("n"), "f": get("filled"), "b": get("blen"), "p": 0, "t": ""}),
            _ => return,
        };
        EVS.with(|e| e.borrow_mut().push(v));
    })));
}

fn hooks_end() -> Vec<Value> {
    #[cfg(mpd_client_verif)]
    mpd_client::protocol::verif::set_sink(None);
    EVS.with(|e| std::mem::take(&mut *e.borrow_mut()))
}

fn run_receive_sync(chunks: Vec<Vec<u8>>, maxcalls: usize) -> (Vec<Value>, String, usize, bool) {
    let mut all = vec![GREETING.to_vec()];
    all.extend(chunks);
    let rd = Chunks::new(all, false);
    let mut conn = match Connection::connect(rd) {
        Ok(c) => c,
        Err(_) => return (vec![], "connect_failed".into(), 0, false),
    };
    let mut out = vec![];
    let mut again = String::new();
    let mut terminal = false;
    hooks_begin();
    for _ in 0..maxcalls {
        if sends() {
            let _ = catch_unwind(AssertUnwindSafe(|| conn.send(ping())));
        }
        let r = catch_unwind(AssertUnwindSafe(|| conn.receive()));
        let (t, v) = match r {
            Ok(r) => outcome(r),
            Err(_) => ("PANIC".to_string(), json!({"frames": [], "err": []})),
        };
        ev_out(&t);
        if terminal {
            again = t;
            break;
        }
        let is_resp = t == "resp";
        out.push(json!({"t": t, "resp": v}));
        if !is_resp {
            terminal = true;
            if out.last().unwrap()["t"] == "PANIC" {
                again = "skipped".into();
                break;
            }
        }
    }
    let io = conn.into_inner();
    (out, again, io.reads, io.hang)
}

fn run_receive_async(chunks: Vec<Vec<u8>>, maxcalls: usize, pend: bool, cancel_after: usize) -> (Vec<Value>, String, usize, bool) {
    let rt = tokio::runtime::Builder::new_current_thread().build().unwrap();
    let mut all = vec![GREETING.to_vec()];
    all.extend(chunks);
    let mut rd = Chunks::new(all, pend);
    let held = rd.held.clone();
    if cancel_after > 0 {
        // a receive that is CANCELLED (as a select! does) after the first `cancel_after` chunks arrived and nothing more:
        // polled once, dropped while it waits, then receive is called afresh
        rd.hold_after = 1 + cancel_after;
        held.store(true, std::sync::atomic::Ordering::SeqCst);
    }
    let mut conn = match rt.block_on(AsyncConnection::connect(rd)) {
        Ok(c) => c,
        Err(_) => return (vec![], "connect_failed".into(), 0, false),
    };
    let mut out = vec![];
    let mut again = String::new();
    let mut terminal = false;
    hooks_begin();
    if cancel_after > 0 {
        let first = catch_unwind(AssertUnwindSafe(|| rt.block_on(crate::session::poll_once(conn.receive()))));
        held.store(false, std::sync::atomic::Ordering::SeqCst);
        match first {
            Err(_) => {
                out.push(json!({"t": "PANIC", "resp": {"frames": [], "err": []}}));
                let io = conn.into_inner();
                return (out, "skipped".into(), io.reads, io.hang);
            }
            Ok(None) => {} // cancelled while waiting: the usual calls follow
            Ok(Some(r)) => {
                // (it completed in its first poll: nothing was cancelled)
                let (t, v) = outcome(r);
                ev_out(&t);
                let is_resp = t == "resp";
                out.push(json!({"t": t, "resp": v}));
                terminal = !is_resp;
            }
        }
    }
    for _ in 0..maxcalls {
        if sends() {
            let _ = catch_unwind(AssertUnwindSafe(|| rt.block_on(conn.send(ping()))));
        }
        let r = catch_unwind(AssertUnwindSafe(|| rt.block_on(conn.receive())));
        let (t, v) = match r {
            Ok(r) => outcome(r),
            Err(_) => ("PANIC".to_string(), json!({"frames": [], "err": []})),
        };
        ev_out(&t);
        if terminal {
            again = t;
            break;
        }
        let is_resp = t == "resp";
        out.push(json!({"t": t, "resp": v}));
        if !is_resp {
            terminal = true;
            if out.last().unwrap()["t"] == "PANIC" {
                again = "skipped".into();
                break;
            }
        }
    }
    let io = conn.into_inner();
    (out, again, io.reads, io.hang)
}

fn connect_outcome<T>(r: Result<Result<(T, String), MpdProtocolError>, Box<dyn std::any::Any + Send>>) -> (String, Vec<u8>) {
    match r {
        Err(_) => ("PANIC".into(), vec![]),
        Ok(Ok((_, v))) => ("ok".into(), v.into_bytes()),
        Ok(Err(MpdProtocolError::InvalidMessage)) => ("invalid".into(), vec![]),
        Ok(Err(MpdProtocolError::Io(e))) if e.kind() == io::ErrorKind::UnexpectedEof => ("ueof".into(), vec![]),
        Ok(Err(MpdProtocolError::Io(e))) => (format!("io:{:?}", e.kind()), vec![]),
    }
}

pub fn bytes_of(v: &Value) -> Vec<u8> {
    v.as_array().map(|a| a.iter().map(|x| x.as_u64().unwrap_or(0) as u8).collect()).unwrap_or_default()
}

pub fn run_case(c: &Value) -> Value {
    SENDS.with(|s| s.set(c["sends"].as_bool().unwrap_or(false)));
    let stream = bytes_of(&c["stream"]);
    let cuts: Vec<usize> = c["cuts"].as_array().map(|a| a.iter().map(|x| x.as_u64().unwrap_or(0) as usize).collect()).unwrap_or_default();
    let flavour = c["flavour"].as_str().unwrap_or("sync");
    let mode = c["mode"].as_str().unwrap_or("receive");
    let pend = c["pend"].as_bool().unwrap_or(false);
    let chunks = split(&stream, &cuts);
    let nchunks = chunks.len();
    // large generated streams carry the generator's expectation (digest); everything else is judged byte by byte by TLC
    let big = c.get("exp_digest").is_some();
    if mode == "connect" {
        let (res, version, reads, hang) = if flavour == "sync" {
            let mut rd = Chunks::new(chunks, false);
            let r = catch_unwind(AssertUnwindSafe(|| Connection::connect(&mut rd).map(|c| ((), c.protocol_version().to_string()))));
            let (a, b) = connect_outcome(r);
            (a, b, rd.reads, rd.hang)
        } else {
            let rt = tokio::runtime::Builder::new_current_thread().build().unwrap();
            let mut rd = Chunks::new(chunks, pend);
            let r = catch_unwind(AssertUnwindSafe(|| rt.block_on(AsyncConnection::connect(&mut rd)).map(|c| ((), c.protocol_version().to_string()))));
            let (a, b) = connect_outcome(r);
            (a, b, rd.reads, rd.hang)
        };
        return json!({"e": "greet", "id": c["id"], "stream": stream, "flavour": flavour, "res": res, "version": version, "nreads": reads, "nchunks": nchunks, "hang": hang});
    }
    let maxcalls = 12 + stream.iter().filter(|&&b| b == b'\n').count();
    let cancel_after = c["cancel_after"].as_u64().unwrap_or(0) as usize;
    let (out, again, reads, hang) = if flavour == "sync" { run_receive_sync(chunks, maxcalls) } else { run_receive_async(chunks, maxcalls, pend, cancel_after) };
    let evs = hooks_end();
    if big {
        // large streams: the record carries a digest of the outcomes instead of the bytes (compared across
        // segmentations and flavours by TLC; the byte-exact reference check is done on the small streams)
        let dig = fnv(&canon(&out));
        let nresp = out.iter().filter(|o| o["t"] == "resp").count();
        let last = out.last().map(|o| o["t"].as_str().unwrap_or("").to_string()).unwrap_or_default();
        return json!({"e": "bigcase", "id": c["id"], "sid": c["sid"], "len": stream.len(), "flavour": flavour, "digest": dig.to_string(), "nresp": nresp, "last": last,
                      "again": again, "nreads": reads - 1, "nchunks": nchunks, "hang": hang, "exp_nresp": c["exp_nresp"], "exp_last": c["exp_last"], "exp_digest": c["exp_digest"]});
    }
    json!({"e": "case", "id": c["id"], "stream": stream, "flavour": flavour, "out": out, "again": again, "nreads": reads.saturating_sub(1), "nchunks": nchunks, "hang": hang,
           "abs": c.get("abs").cloned().unwrap_or(json!([])), "has_abs": c.get("abs").is_some(), "wellformed_cut": c["wellformed_cut"].as_bool().unwrap_or(false),
           "hooked": cfg!(mpd_client_verif) && evs.iter().any(|e| e["e"] != "o"), "ev": if c["hooks"].as_bool().unwrap_or(false) { json!(evs) } else { json!([]) }})
}

/// Canonical bytes of one response, appended to `c` (same form as `canon`, without the JSON detour).
fn canon_resp(r: &Response, c: &mut Vec<u8>) {
    c.extend_from_slice(b"resp|");
    let mut err: Option<Vec<u8>> = None;
    for f in r.frames() {
        match f {
            Ok(f) => {
                c.push(b'F');
                for (k, v) in f.fields() {
                    c.extend_from_slice(k.as_bytes());
                    c.push(b':');
                    c.extend_from_slice(v.as_bytes());
                    c.push(b'\n');
                }
                if let Some(b) = f.binary() {
                    c.extend_from_slice(format!("B{}:", b.len()).as_bytes());
                    c.extend_from_slice(b);
                }
            }
            Err(e) => {
                let mut x = vec![b'E'];
                x.extend_from_slice(e.code.to_string().as_bytes());
                x.push(b'@');
                x.extend_from_slice(e.command_index.to_string().as_bytes());
                x.push(b'{');
                x.extend_from_slice(e.current_command.as_deref().unwrap_or("").as_bytes());
                x.push(b'}');
                x.extend_from_slice(e.message.as_bytes());
                err = Some(x);
            }
        }
    }
    match err {
        None => c.extend_from_slice(b"E-|"),
        Some(x) => {
            c.extend(x);
            c.push(b'|');
        }
    }
}

fn kind_of(r: &Result<Option<Response>, MpdProtocolError>) -> String {
    match r {
        Ok(Some(_)) => "resp".into(),
        Ok(None) => "clean".into(),
        Err(MpdProtocolError::InvalidMessage) => "invalid".into(),
        Err(MpdProtocolError::Io(e)) if e.kind() == io::ErrorKind::UnexpectedEof => "ueof".into(),
        Err(MpdProtocolError::Io(e)) => format!("io:{:?}", e.kind()),
    }
}

/// (digest, nresp, last, again, hang) of one feed, without building JSON values (sweeps run tens of thousands of feeds)
fn lean_run(flavour: &str, chunks: Vec<Vec<u8>>, maxcalls: usize, rt: &tokio::runtime::Runtime) -> (String, usize, String, String, bool) {
    let mut all = vec![GREETING.to_vec()];
    all.extend(chunks);
    let rd = Chunks::new(all, false);
    let mut c = vec![];
    let (mut nresp, mut last, mut again) = (0usize, String::new(), String::new());
    let mut terminal = false;
    macro_rules! drive {
        ($conn:ident, $recv:expr) => {{
            for _ in 0..maxcalls {
                let r = catch_unwind(AssertUnwindSafe(|| $recv));
                let t = match &r {
                    Ok(r) => kind_of(r),
                    Err(_) => "PANIC".to_string(),
                };
                if terminal {
                    again = t;
                    break;
                }
                if let Ok(Ok(Some(resp))) = &r {
                    canon_resp(resp, &mut c);
                    nresp += 1;
                }
                last = t.clone();
                if t != "resp" {
                    terminal = true;
                    if t == "PANIC" {
                        again = "skipped".into();
                        break;
                    }
                }
            }
            let io = $conn.into_inner();
            io.hang
        }};
    }
    let hang = if flavour == "sync" {
        let mut conn = match Connection::connect(rd) {
            Ok(c) => c,
            Err(_) => return ("0".into(), 0, "connect_failed".into(), String::new(), false),
        };
        drive!(conn, {
            if sends() {
                let _ = conn.send(ping());
            }
            conn.receive()
        })
    } else {
        let mut conn = match rt.block_on(AsyncConnection::connect(rd)) {
            Ok(c) => c,
            Err(_) => return ("0".into(), 0, "connect_failed".into(), String::new(), false),
        };
        drive!(conn, {
            if sends() {
                let _ = rt.block_on(conn.send(ping()));
            }
            rt.block_on(conn.receive())
        })
    };
    (fnv(&c).to_string(), nresp, last, again, hang)
}

/// One large stream cut in two at EVERY position lo, lo+step, ... < hi (an exact internal threshold is hit by exactly one of them):
/// one `bigcase` record per DISTINCT outcome, with the number of cuts that produced it and the first such cut.
pub fn run_sweep(c: &Value) -> Vec<Value> {
    SENDS.with(|s| s.set(c["sends"].as_bool().unwrap_or(false)));
    let stream = bytes_of(&c["stream"]);
    let flavour = c["flavour"].as_str().unwrap_or("sync");
    let lo = c["sweep"]["lo"].as_u64().unwrap_or(1) as usize;
    let hi = (c["sweep"]["hi"].as_u64().unwrap_or(stream.len() as u64) as usize).min(stream.len());
    let step = c["sweep"]["step"].as_u64().unwrap_or(1).max(1) as usize;
    let maxcalls = 12 + stream.iter().filter(|&&b| b == b'\n').count();
    let mut seen: Vec<(String, usize, String, String, bool, usize, usize)> = vec![];
    let rt = tokio::runtime::Builder::new_current_thread().build().unwrap();
    let mut cut = lo.max(1);
    while cut < hi {
        let chunks = split(&stream, &[cut]);
        let (dig, nresp, last, again, hang) = lean_run(flavour, chunks, maxcalls, &rt);
        match seen.iter_mut().find(|x| x.0 == dig && x.1 == nresp && x.2 == last && x.3 == again && x.4 == hang) {
            Some(x) => x.5 += 1,
            None => seen.push((dig, nresp, last, again, hang, 1, cut)),
        }
        cut += step;
    }
    seen.into_iter()
        .map(|(dig, nresp, last, again, hang, count, first)| {
            json!({"e": "bigcase", "id": c["id"], "sid": c["sid"], "len": stream.len(), "flavour": flavour, "digest": dig, "nresp": nresp, "last": last,
                   "again": again, "nreads": 0, "nchunks": 2, "hang": hang, "exp_nresp": c["exp_nresp"], "exp_last": c["exp_last"], "exp_digest": c["exp_digest"],
                   "sweep_count": count, "sweep_first_cut": first})
        })
        .collect()
}

/// Canonical byte form of the responses in `out` (twin of lib/wiregen.py::big_stream's `canon`).
pub fn canon(out: &[Value]) -> Vec<u8> {
    let mut c = vec![];
    for o in out {
        if o["t"] != "resp" {
            continue;
        }
        c.extend_from_slice(b"resp|");
        for f in o["resp"]["frames"].as_array().unwrap() {
            c.push(b'F');
            for kv in f["fields"].as_array().unwrap() {
                c.extend(bytes_of(&kv[0]));
                c.push(b':');
                c.extend(bytes_of(&kv[1]));
                c.push(b'\n');
            }
            if let Some(b) = f["bin"].as_array().and_then(|a| a.first()) {
                let p = bytes_of(b);
                c.extend_from_slice(format!("B{}:", p.len()).as_bytes());
                c.extend(p);
            }
        }
        let e = o["resp"]["err"].as_array().unwrap();
        if e.is_empty() {
            c.extend_from_slice(b"E-|");
        } else {
            c.push(b'E');
            c.extend(bytes_of(&e[0]));
            c.push(b'@');
            c.extend(bytes_of(&e[1]));
            c.push(b'{');
            c.extend(bytes_of(&e[2]));
            c.push(b'}');
            c.extend(bytes_of(&e[3]));
            c.push(b'|');
        }
    }
    c
}

pub fn fnv(b: &[u8]) -> u64 {
    let mut h: u64 = 0xcbf29ce484222325;
    for &x in b {
        h ^= x as u64;
        h = h.wrapping_mul(0x100000001b3);
    }
    h
}

pub fn main(args: &[String]) -> i32 {
    let input = std::fs::read_to_string(&args[0]).expect("case file");
    let out = std::fs::File::create(&args[1]).expect("out file");
    let mut out = std::io::BufWriter::new(out);
    let mut n = 0;
    for l in input.lines() {
        if l.trim().is_empty() {
            continue;
        }
        let c: Value = serde_json::from_str(l).expect("case json");
        if c.get("sweep").is_some() {
            for r in run_sweep(&c) {
                writeln!(out, "{}", r).unwrap();
            }
            n += 1;
            continue;
        }
        let r = run_case(&c);
        writeln!(out, "{}", r).unwrap();
        n += 1;
    }
    out.flush().unwrap();
    eprintln!("wire: {n} cases");
    0
}
