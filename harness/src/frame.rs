//! Frame / Response driver (C19): builds real frames by pushing the encoded lines through the real parser,
//! applies operation sequences dictated by the model and records every result.

use crate::wire::Chunks;
use mpd_client::protocol::{response::Frame, Connection};
use serde_json::{json, Value};
use std::io::Write;
use std::panic::{catch_unwind, AssertUnwindSafe};

pub fn bytes_of(v: &Value) -> Vec<u8> {
    v.as_array().map(|a| a.iter().map(|x| x.as_u64().unwrap_or(0) as u8).collect()).unwrap_or_default()
}

pub fn encode_frame(f: &Value) -> Vec<u8> {
    let mut s = vec![];
    for kv in f["fields"].as_array().unwrap() {
        s.extend(bytes_of(&kv[0]));
        s.extend_from_slice(b": ");
        s.extend(bytes_of(&kv[1]));
        s.push(b'\n');
    }
    if let Some(p) = f["bin"].as_array().and_then(|a| a.first()) {
        let p = bytes_of(p);
        s.extend_from_slice(format!("binary: {}\n", p.len()).as_bytes());
        s.extend(p);
        s.push(b'\n');
    }
    s
}

/// Real response for the given body bytes (after the greeting).
pub fn receive_bytes(body: Vec<u8>) -> Option<mpd_client::protocol::response::Response> {
    let rd = Chunks::new(vec![b"OK MPD 0.23.5\n".to_vec(), body], false);
    let mut conn = Connection::connect(rd).ok()?;
    conn.receive().ok()?
}

pub fn real_frame(f: &Value) -> Option<Frame> {
    let mut body = encode_frame(f);
    body.extend_from_slice(b"OK\n");
    receive_bytes(body)?.into_single_frame().ok()
}

fn opt_str(v: Option<&str>) -> Value {
    match v {
        None => json!([]),
        Some(s) => json!([s.as_bytes()]),
    }
}

fn moves_of(v: &Value) -> Vec<String> {
    v.as_array().map(|a| a.iter().map(|x| x.as_str().unwrap_or("").to_string()).collect()).unwrap_or_default()
}

pub fn run_frame_case(c: &Value) -> Value {
    let Some(mut frame) = real_frame(&c["frame"]) else {
        return json!({"e": "harness_error", "id": c["id"], "why": "frame did not parse"});
    };
    let mut ops_out = vec![];
    for o in c["ops"].as_array().unwrap() {
        let k = String::from_utf8_lossy(&bytes_of(&o["k"])).to_string();
        let res = match o["op"].as_str().unwrap_or("") {
            "find" => opt_str(frame.find(&k)),
            "get" => match frame.get(&k) {
                None => json!([]),
                Some(s) => json!([s.as_bytes()]),
            },
            "take_binary" => match frame.take_binary() {
                None => json!([]),
                Some(b) => json!([b.to_vec()]),
            },
            "binary" => match frame.binary() {
                None => json!([]),
                Some(b) => json!([b]),
            },
            "fields_len" => json!([frame.fields_len()]),
            "is_empty" => json!([frame.is_empty()]),
            "has_binary" => json!([frame.has_binary()]),
            "iter" => {
                let mut it = Some(frame.fields());
                let mut out = vec![];
                for m in moves_of(&o["moves"]) {
                    let Some(cur) = it.as_mut() else { break };
                    let x = match m.as_str() {
                        "f" => cur.next(),
                        "b" => cur.next_back(),
                        "n1" => cur.nth(1),
                        "n2" => cur.nth(2),
                        _ => it.take().unwrap().last(), // "l": by value, consumes the iterator
                    };
                    out.push(match x {
                        None => json!([]),
                        Some((k, v)) => json!([[k.as_bytes(), v.as_bytes()]]),
                    });
                }
                json!(out)
            }
            _ => json!([]),
        };
        ops_out.push(json!({"op": o["op"], "k": o["k"], "moves": o["moves"], "res": res}));
    }
    // equality / clone agree with the collection view
    let clone_eq = frame.clone() == frame;
    let via_ref: Vec<Value> = (&frame).into_iter().map(|(k, v)| json!([k.as_bytes(), v.as_bytes()])).collect();
    // finally consume the frame with the owning iterator
    let mut owned = vec![];
    let mut it = Some(frame.into_iter());
    for m in moves_of(&c["owned"]) {
        let Some(cur) = it.as_mut() else { break };
        match m.as_str() {
            "t" => owned.push(json!(["bin", match cur.take_binary() { None => json!([]), Some(b) => json!([b.to_vec()]) }])),
            mv => {
                let x = match mv {
                    "f" => cur.next(),
                    "b" => cur.next_back(),
                    "n1" => cur.nth(1),
                    "n2" => cur.nth(2),
                    _ => it.take().unwrap().last(), // "l": by value, consumes the iterator
                };
                owned.push(json!(["item", match x { None => json!([]), Some((k, v)) => json!([[k.as_bytes(), v.as_bytes()]]) }]));
            }
        }
    }
    json!({"e": "frame", "id": c["id"], "frame": c["frame"], "ops": ops_out, "owned_moves": c["owned"], "owned": owned, "clone_eq": clone_eq, "via_ref": via_ref})
}

/// Response-level iteration: frames tagged t1.. and optional error; moves over n / b / s, borrowed and owned.
pub fn run_resp_case(c: &Value) -> Value {
    let n = c["nframes"].as_u64().unwrap_or(0) as usize;
    let err = c["err"].as_bool().unwrap_or(false);
    let mut body = vec![];
    for i in 1..=n {
        body.extend_from_slice(format!("tag: {i}\nlist_OK\n").as_bytes());
    }
    if err {
        if c["partial"].as_bool().unwrap_or(false) {
            // the failing command printed part of its output before the error: that is not a successful frame
            body.extend_from_slice(b"tag: 99\n");
        }
        body.extend_from_slice(b"ACK [7@0] {x} boom\n");
    } else {
        body.extend_from_slice(b"OK\n");
    }
    let Some(resp) = receive_bytes(body) else {
        return json!({"e": "harness_error", "id": c["id"], "why": "response did not parse"});
    };
    let item = |x: Option<Result<&Frame, &mpd_client::protocol::response::Error>>| match x {
        None => json!(["none", 0]),
        Some(Ok(f)) => json!(["ok", f.find("tag").and_then(|t| t.parse::<u64>().ok()).unwrap_or(0)]),
        Some(Err(e)) => json!(["err", e.code]),
    };
    let moves = moves_of(&c["moves"]);
    let mut borrowed = vec![];
    {
        let mut it = resp.frames();
        for m in &moves {
            borrowed.push(match m.as_str() {
                "s" => {
                    let (lo, hi) = it.size_hint();
                    if Some(lo) == hi && it.len() == lo { json!(["size", lo]) } else { json!(["size_mismatch", lo]) }
                }
                "n" => item(it.next()),
                "b" => item(it.next_back()),
                m if m.starts_with('t') => item(it.nth(m[1..].parse().unwrap_or(0))),
                m => item(it.nth_back(m[1..].parse().unwrap_or(0))),
            });
        }
    }
    let via_into_ref: usize = (&resp).into_iter().count();
    // "the first frame or the error": the first item of the iteration
    let single = match resp.clone().into_single_frame() {
        Ok(f) => json!(["ok", f.find("tag").and_then(|t| t.parse::<u64>().ok()).unwrap_or(0)]),
        Err(e) => json!(["err", e.code]),
    };
    let summary = json!({"is_error": resp.is_error(), "is_success": resp.is_success(), "successful_frames": resp.successful_frames(), "count": via_into_ref, "single": single});
    let mut owned = vec![];
    {
        let mut it = resp.into_iter();
        for m in &moves {
            owned.push(match m.as_str() {
                "s" => {
                    let (lo, hi) = it.size_hint();
                    if Some(lo) == hi && it.len() == lo { json!(["size", lo]) } else { json!(["size_mismatch", lo]) }
                }
                "n" => {
                    let x = it.next();
                    item(x.as_ref().map(|r| r.as_ref()))
                }
                "b" => {
                    let x = it.next_back();
                    item(x.as_ref().map(|r| r.as_ref()))
                }
                m if m.starts_with('t') => {
                    let x = it.nth(m[1..].parse().unwrap_or(0));
                    item(x.as_ref().map(|r| r.as_ref()))
                }
                m => {
                    let x = it.nth_back(m[1..].parse().unwrap_or(0));
                    item(x.as_ref().map(|r| r.as_ref()))
                }
            });
        }
    }
    json!({"e": "resp", "id": c["id"], "nframes": n, "err": err, "moves": c["moves"], "borrowed": borrowed, "owned": owned, "summary": summary})
}

/// Deep case (F-C19-1): a frame of n `a: v` lines, all but the last removed with get(), then every iterator and
/// length query, on a 2 MiB stack thread. A stack overflow aborts the process: run this in a child process.
pub fn deep(n: usize) -> i32 {
    let h = std::thread::Builder::new().stack_size(2 * 1024 * 1024).spawn(move || {
        let mut body = Vec::with_capacity(n * 5 + 16);
        for _ in 0..n {
            body.extend_from_slice(b"a: v\n");
        }
        body.extend_from_slice(b"z: last\nOK\n");
        let mut frame = receive_bytes(body).unwrap().into_single_frame().unwrap();
        let mut removed = 0usize;
        while frame.get("a").is_some() {
            removed += 1;
        }
        let len = frame.fields_len();
        let empty = frame.is_empty();
        let first = frame.fields().next().map(|(k, v)| format!("{k}={v}"));
        let last = frame.fields().next_back().map(|(k, v)| format!("{k}={v}"));
        let found = frame.find("z").map(|s| s.to_string());
        let owned: Vec<(std::sync::Arc<str>, String)> = frame.clone().into_iter().collect();
        let owned_back = frame.into_iter().next_back().map(|(k, v)| format!("{k}={v}"));
        println!("{}", json!({"e": "deep", "n": n, "removed": removed, "fields_len": len, "is_empty": empty, "first": first, "last": last, "found": found, "owned_len": owned.len(), "owned_back": owned_back}));
    });
    match h.unwrap().join() {
        Ok(()) => 0,
        Err(_) => {
            println!("{}", json!({"e": "deep", "n": n, "panicked": true}));
            0
        }
    }
}

pub fn main(args: &[String]) -> i32 {
    if args[0] == "--deep" {
        return deep(args[1].parse().unwrap());
    }
    let input = std::fs::read_to_string(&args[0]).expect("case file");
    let out = std::fs::File::create(&args[1]).expect("out file");
    let mut out = std::io::BufWriter::new(out);
    let mut n = 0;
    for l in input.lines() {
        if l.trim().is_empty() {
            continue;
        }
        let c: Value = serde_json::from_str(l).expect("case json");
        let r = catch_unwind(AssertUnwindSafe(|| if c["kind"] == "resp" { run_resp_case(&c) } else { run_frame_case(&c) }));
        let v = r.unwrap_or_else(|_| json!({"e": "panic", "id": c["id"]}));
        writeln!(out, "{}", v).unwrap();
        n += 1;
    }
    out.flush().unwrap();
    eprintln!("frame: {n} cases");
    0
}
