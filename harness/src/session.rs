//! Session driver: executes environment schedules against the real `mpd_client::Client` over the
//! mock transport, deterministically (current-thread runtime, paused clock, quiescence stepping),
//! and records everything observable as ndjson. Contains no oracle.

use crate::mock::{Line, MockIo, Mode, Picture, Sh, Shared, SrvCfg};
use mpd_client::client::{Client, CommandError, ConnectWithPasswordError, ConnectionEvent, ConnectionEvents};
use mpd_client::protocol::{
    command::{Command as RawCommand, CommandList as RawCommandList},
    response::Frame,
    MpdProtocolError,
};
use serde_json::{json, Value};
use std::future::Future;
use std::io::Write;
use std::sync::{Arc, Mutex};
use std::task::Poll;
use std::time::Duration;
use tokio::task::JoinHandle;

pub async fn poll_once<F: Future>(f: F) -> Option<F::Output> {
    let mut f = std::pin::pin!(f);
    std::future::poll_fn(|cx| {
        Poll::Ready(match f.as_mut().poll(cx) {
            Poll::Ready(v) => Some(v),
            Poll::Pending => None,
        })
    })
    .await
}

pub async fn settle(m: &Shared) {
    let mut last = u64::MAX;
    let mut calm = 0;
    while calm < 12 {
        tokio::task::yield_now().await;
        let p = m.lock().unwrap().progress;
        if p == last {
            calm += 1
        } else {
            calm = 0;
            last = p
        }
    }
}

fn log(m: &Shared, v: Value) {
    let mut s = m.lock().unwrap();
    s.progress += 1;
    s.log.push(v);
}

pub fn proto_err_kind(e: &MpdProtocolError) -> String {
    match e {
        MpdProtocolError::Io(e) => format!("io:{:?}", e.kind()),
        MpdProtocolError::InvalidMessage => "invalid".into(),
    }
}

pub fn frame_json(f: &Frame) -> Value {
    let fields: Vec<Value> = f.fields().map(|(k, v)| json!([k.as_bytes(), v.as_bytes()])).collect();
    let (bn, bd) = match f.binary() {
        None => (-1i64, vec![]),
        Some(b) => {
            let mut dig = b.iter().take(4).cloned().collect::<Vec<u8>>();
            dig.extend(b.iter().rev().take(4));
            (b.len() as i64, dig)
        }
    };
    json!({"f": fields, "bn": bn, "bd": bd})
}

fn res_json(t: &str, frames: Vec<Value>, code: u64, idx: u64, cmd: &[u8], msg: &[u8], kind: &str) -> Value {
    json!({"t": t, "frames": frames, "code": code, "idx": idx, "cmd": cmd, "msg": msg, "kind": kind, "items": []})
}

pub fn cmd_err_json(e: &CommandError) -> Value {
    match e {
        CommandError::ConnectionClosed => res_json("closed", vec![], 0, 0, b"", b"", ""),
        CommandError::Protocol(p) => res_json("proto", vec![], 0, 0, b"", b"", &proto_err_kind(p)),
        CommandError::ErrorResponse { error, succesful_frames } => res_json(
            "ack",
            succesful_frames.iter().map(frame_json).collect(),
            error.code,
            error.command_index,
            error.current_command.as_deref().unwrap_or("").as_bytes(),
            error.message.as_bytes(),
            "",
        ),
        CommandError::InvalidTypedResponse(t) => res_json("typed", vec![], 0, 0, b"", t.to_string().as_bytes(), ""),
    }
}

fn bytes_of(v: &Value) -> Vec<u8> {
    match v {
        Value::Array(a) => a.iter().map(|x| x.as_u64().unwrap_or(0) as u8).collect(),
        Value::String(s) => s.as_bytes().to_vec(),
        _ => vec![],
    }
}

fn opt_bytes(v: &Value) -> Option<Vec<u8>> {
    if v.is_null() {
        None
    } else {
        Some(bytes_of(v))
    }
}

/// Deterministic picture content: byte i of a picture with tag t. Full of protocol look-alikes.
pub fn pic_bytes(len: usize, tag: u8) -> Vec<u8> {
    const PAT: &[u8] = b"OK\nbinary: 3\nACK [5@0] {} x\nlist_OK\n\0\xff";
    (0..len)
        .map(|i| {
            if i == 0 {
                tag
            } else if (i / PAT.len()) % 3 == 2 {
                ((i * 31 + tag as usize) % 256) as u8
            } else {
                PAT[i % PAT.len()]
            }
        })
        .collect()
}

fn parse_cfg(c: &Value) -> (SrvCfg, Value) {
    let mut cfg = SrvCfg::default();
    cfg.password = opt_bytes(&c["srv_password"]);
    if let Some(a) = c["auth"].as_str() {
        cfg.auth = a.into();
    }
    let picture = |p: &Value, tb: u8| {
        let size = |v: &Value, tag: u8| v.as_i64().filter(|n| *n >= 0).map(|n| pic_bytes(n as usize, tag));
        Picture {
            embedded: size(&p["embedded"], 1 + tb),
            file: size(&p["file"], 2 + tb),
            mime: opt_bytes(&p["mime"]),
            limit: p["limit"].as_u64().unwrap_or(8192) as usize,
            embedded_ack: p["embedded_ack"].as_u64().unwrap_or(0),
            file_ack: p["file_ack"].as_u64().unwrap_or(0),
            vary: p["vary"].as_bool().unwrap_or(false),
            ackp: p["ackp"].as_bool().unwrap_or(false),
            tfirst: p["tfirst"].as_bool().unwrap_or(false),
        }
    };
    if c["pic"].is_object() {
        cfg.pic = picture(&c["pic"], 0);
        // URIs ending in "_alt.flac" have their own picture (same shape unless given), with other content tags
        cfg.pic2 = picture(if c["pic2"].is_object() { &c["pic2"] } else { &c["pic"] }, 2);
    }
    (cfg, c.clone())
}

struct Pending {
    c: usize,
    n: usize,
    handle: JoinHandle<()>,
    done: Arc<Mutex<bool>>,
    started: Arc<Mutex<bool>>,
    cancelled: bool,
}

fn req_id(c: usize, n: usize, j: Option<usize>) -> String {
    match j {
        None => format!("c{c}n{n:03}"),
        Some(j) => format!("c{c}n{n:03}x{j}"),
    }
}

fn build_req(id: &str, spec: &Value) -> RawCommand {
    let mut cmd = RawCommand::new("req").argument(id);
    if spec["fail"].as_bool().unwrap_or(false) {
        cmd = cmd.argument("fail");
    }
    let pad = spec["pad"].as_u64().unwrap_or(0);
    if pad > 0 {
        cmd = cmd.argument(format!("p{pad}"));
    }
    // a long argument the server ignores (a file name, a filter ...): requests of several hundred KiB, lists of several MiB
    let fat = spec["fat"].as_u64().unwrap_or(0) as usize;
    if fat > 0 {
        cmd = cmd.argument("z".repeat(fat));
    }
    cmd
}

struct Driver {
    m: Shared,
    clients: Vec<Option<Client>>,
    issued: Vec<usize>,
    pending: Vec<Pending>,
    ev: Option<ConnectionEvents>,
    ev_ended: bool,
    /// the application keeps the event receiver but does not poll it until the end of the run
    lazy_events: bool,
}

impl Driver {
    fn issue(&mut self, st: &Value) {
        let c = st["c"].as_u64().unwrap_or(0) as usize;
        let Some(cl) = self.clients.get(c).and_then(|x| x.clone()) else {
            log(&self.m, json!({"e": "noop", "why": "issue on dropped handle"}));
            return;
        };
        self.issued[c] += 1;
        let n = self.issued[c];
        let kind = st["kind"].as_str().unwrap_or("raw").to_string();
        let cmds: Vec<Value> = st["cmds"].as_array().cloned().unwrap_or_else(|| vec![json!({})]);
        let mm = self.m.clone();
        let done = Arc::new(Mutex::new(false));
        let done2 = done.clone();
        let started = Arc::new(Mutex::new(false));
        let started2 = started.clone();
        let uri = format!("{}{}.flac", req_id(c, n, None), if st["alt"].as_bool().unwrap_or(false) { "_alt" } else { "" });
        let handle = tokio::spawn(async move {
            let specs: Vec<Value> = cmds
                .iter()
                .enumerate()
                .map(|(j, s)| {
                    let id = if kind == "raw" { req_id(c, n, None) } else { req_id(c, n, Some(j + 1)) };
                    if kind == "tlist" || kind == "tvec" {
                        let t = if kind == "tvec" { "sticker" } else { ["sticker", "update", "addid", "channels"][j % 4] };
                        return json!({"id": if t == "channels" { vec![] } else { id.as_bytes().to_vec() }, "fail": false, "pad": 0, "t": t});
                    }
                    json!({"id": id.as_bytes(), "fail": s["fail"].as_bool().unwrap_or(false), "pad": s["pad"].as_u64().unwrap_or(0), "t": "req"})
                })
                .collect();
            *started2.lock().unwrap() = true;
            log(&mm, json!({"e": "issue", "c": c, "n": n, "kind": kind, "cmds": specs, "uri": uri.as_bytes()}));
            let res = match kind.as_str() {
                "raw" => {
                    let cmd = build_req(&req_id(c, n, None), &cmds[0]);
                    match cl.raw_command(cmd).await {
                        Ok(f) => res_json("ok", vec![frame_json(&f)], 0, 0, b"", b"", ""),
                        Err(e) => cmd_err_json(&e),
                    }
                }
                "list" => {
                    let mut list = RawCommandList::new(build_req(&req_id(c, n, Some(1)), &cmds[0]));
                    for (j, s) in cmds.iter().enumerate().skip(1) {
                        list.add(build_req(&req_id(c, n, Some(j + 1)), s));
                    }
                    match cl.raw_command_list(list).await {
                        Ok(fs) => res_json("ok", fs.iter().map(frame_json).collect(), 0, 0, b"", b"", ""),
                        Err(e) => cmd_err_json(&e),
                    }
                }
                "tlist" | "tvec" => {
                    use mpd_client::commands::{Add, ListChannels, StickerGet, Update};
                    let u: Vec<String> = (0..cmds.len()).map(|j| req_id(c, n, Some(j + 1))).collect();
                    let tl = |items: Vec<Value>| {
                        let mut v = res_json("tl", vec![], 0, 0, b"", b"", "");
                        v["items"] = json!(items);
                        v
                    };
                    let sg = |s: mpd_client::responses::StickerGet| json!(["sticker", s.value.as_bytes()]);
                    let up = |x: u64| json!(["update", x.to_string().as_bytes()]);
                    let ad = |x: mpd_client::commands::SongId| json!(["add", x.0.to_string().as_bytes()]);
                    let ch = |x: Vec<String>| json!(["channels", x.iter().map(|s| s.as_bytes().to_vec()).collect::<Vec<_>>()]);
                    let r = if kind == "tvec" {
                        let v: Vec<StickerGet<'_>> = u.iter().map(|x| StickerGet::new(x, "n")).collect();
                        cl.command_list(v).await.map(|rs| tl(rs.into_iter().map(sg).collect()))
                    } else {
                        match cmds.len() {
                            1 => cl.command_list((StickerGet::new(&u[0], "n"),)).await.map(|(a,)| tl(vec![sg(a)])),
                            2 => cl.command_list((StickerGet::new(&u[0], "n"), Update::new().uri(&u[1]))).await.map(|(a, b)| tl(vec![sg(a), up(b)])),
                            3 => cl.command_list((StickerGet::new(&u[0], "n"), Update::new().uri(&u[1]), Add::uri(&u[2]))).await.map(|(a, b, c3)| tl(vec![sg(a), up(b), ad(c3)])),
                            4 => cl.command_list((StickerGet::new(&u[0], "n"), Update::new().uri(&u[1]), Add::uri(&u[2]), ListChannels)).await.map(|(a, b, c3, d4)| tl(vec![sg(a), up(b), ad(c3), ch(d4)])),
                            5 => cl
                                .command_list((StickerGet::new(&u[0], "n"), Update::new().uri(&u[1]), Add::uri(&u[2]), ListChannels, StickerGet::new(&u[4], "n")))
                                .await
                                .map(|(a, b, c3, d4, e5)| tl(vec![sg(a), up(b), ad(c3), ch(d4), sg(e5)])),
                            _ => cl
                                .command_list((StickerGet::new(&u[0], "n"), Update::new().uri(&u[1]), Add::uri(&u[2]), ListChannels, StickerGet::new(&u[4], "n"), Update::new().uri(&u[5])))
                                .await
                                .map(|(a, b, c3, d4, e5, f6)| tl(vec![sg(a), up(b), ad(c3), ch(d4), sg(e5), up(f6)])),
                        }
                    };
                    match r {
                        Ok(v) => v,
                        Err(e) => cmd_err_json(&e),
                    }
                }
                "art" => match cl.album_art(&uri).await {
                    Ok(None) => res_json("art_none", vec![], 0, 0, b"", b"", ""),
                    Ok(Some((data, mime))) => {
                        let which = (1..=4u8).find(|t| data[..] == pic_bytes(data.len(), *t)[..]).unwrap_or(0) as u64;
                        // code = length, idx = which source the bytes equal (projection computed here, see DESIGN)
                        res_json("art", vec![], data.len() as u64, which, b"", mime.as_deref().unwrap_or("").as_bytes(), if mime.is_some() { "mime" } else { "" })
                    }
                    Err(e) => cmd_err_json(&e),
                },
                _ => res_json("harness_error", vec![], 0, 0, b"", b"", "unknown kind"),
            };
            *done2.lock().unwrap() = true;
            log(&mm, json!({"e": "resolve", "c": c, "n": n, "res": res}));
            drop(cl);
        });
        self.pending.push(Pending { c, n, handle, done, started, cancelled: false });
    }

    fn cancel(&mut self, st: &Value) {
        let c = st["c"].as_u64().unwrap_or(0) as usize;
        // cancel the oldest still-pending request of caller c
        for p in self.pending.iter_mut() {
            if p.c == c && !p.cancelled && *p.started.lock().unwrap() && !*p.done.lock().unwrap() {
                p.cancelled = true;
                p.handle.abort();
                log(&self.m, json!({"e": "cancel", "c": c, "n": p.n}));
                return;
            }
        }
        log(&self.m, json!({"e": "noop", "why": "cancel without pending request"}));
    }

    fn apply(&mut self, st: &Value) {
        let op = st["op"].as_str().unwrap_or("");
        match op {
            "issue" => self.issue(st),
            "cancel" => self.cancel(st),
            "drop" => {
                let c = st["c"].as_u64().unwrap_or(0) as usize;
                if c < self.clients.len() && self.clients[c].take().is_some() {
                    let left = self.clients.iter().filter(|x| x.is_some()).count();
                    log(&self.m, json!({"e": "drop_handle", "c": c, "left": left}));
                } else {
                    log(&self.m, json!({"e": "noop", "why": "drop of dropped handle"}));
                }
            }
            "drop_events" => {
                // the user may drop the ConnectionEvents receiver and keep using the client
                if self.ev.take().is_some() && !self.ev_ended {
                    log(&self.m, json!({"e": "events_dropped"}));
                } else {
                    log(&self.m, json!({"e": "noop", "why": "no event receiver to drop"}));
                }
            }
            "deliver" => {
                let mut s = self.m.lock().unwrap();
                let moved = if let Some(u) = st["units"].as_u64() {
                    s.deliver_units(u as usize)
                } else if let Some(b) = st["bytes"].as_u64() {
                    s.deliver_bytes(b as usize)
                } else {
                    s.deliver_bytes(usize::MAX)
                };
                if moved == 0 {
                    s.log.push(json!({"e": "noop", "why": "nothing to deliver"}));
                }
            }
            "change" => {
                let subs: Vec<String> = st["subs"].as_array().map(|a| a.iter().map(|x| x.as_str().unwrap_or("").to_string()).collect()).unwrap_or_default();
                self.m.lock().unwrap().change(&subs, st["extra"].as_u64().unwrap_or(0));
            }
            "wstall" => {
                let mut s = self.m.lock().unwrap();
                s.wstall = Some(st["n"].as_u64().unwrap_or(0) as usize);
                s.log.push(json!({"e": "wstall", "n": st["n"].as_u64().unwrap_or(0)}));
            }
            "wresume" => {
                let mut s = self.m.lock().unwrap();
                s.wstall = None;
                s.progress += 1;
                s.log.push(json!({"e": "wresume"}));
                if let Some(w) = s.wwaker.take() {
                    w.wake();
                }
            }
            "maxread" => {
                self.m.lock().unwrap().max_read = st["n"].as_u64().unwrap_or(0) as usize;
            }
            "fault" => {
                let kind = st["kind"].as_str().unwrap_or("eof");
                let mut s = self.m.lock().unwrap();
                match kind {
                    "eof" => {
                        let lost = s.undelivered();
                        s.s2c.clear();
                        s.eof = true;
                        s.silent = true;
                        s.log.push(json!({"e": "fault", "kind": "eof", "lost": lost}));
                    }
                    "rerr" => {
                        s.rerr = true;
                        s.log.push(json!({"e": "fault", "kind": "rerr", "lost": 0}));
                    }
                    "werr" => {
                        s.werr = true;
                        s.log.push(json!({"e": "fault", "kind": "werr", "lost": 0}));
                    }
                    "garbage" => {
                        s.log.push(json!({"e": "fault", "kind": "garbage", "lost": 0}));
                        s.emit("garbage", vec![Line::bad(b"!bad\n"), Line::f(b"x", b"y"), Line::ok()]);
                    }
                    "idleack" => {
                        // the server refuses the pending idle (only if one is pending)
                        if s.mode == Mode::Idle && !s.silent {
                            s.log.push(json!({"e": "fault", "kind": "idleack", "lost": 0}));
                            s.mode = Mode::Ready;
                            s.emit("garbage", vec![Line::ack(4, 0, b"idle", b"no permission")]);
                        } else {
                            s.log.push(json!({"e": "noop", "why": "no idle pending"}));
                        }
                    }
                    _ => s.log.push(json!({"e": "noop", "why": "unknown fault"})),
                }
                s.progress += 1;
                s.wake();
            }
            "timeout" => { /* handled by caller (async) */ }
            _ => log(&self.m, json!({"e": "noop", "why": format!("unknown op {op}")})),
        }
    }

    async fn drain_events(&mut self) {
        if self.ev_ended || self.lazy_events {
            return;
        }
        let Some(ev) = self.ev.as_mut() else { return };
        loop {
            match poll_once(ev.next()).await {
                None => break,
                Some(None) => {
                    self.ev_ended = true;
                    log(&self.m, json!({"e": "events_end"}));
                    break;
                }
                Some(Some(ConnectionEvent::SubsystemChange(s))) => log(&self.m, json!({"e": "event", "t": "chg", "name": s.as_str().as_bytes(), "kind": ""})),
                Some(Some(ConnectionEvent::ConnectionClosed(e))) => {
                    let kind = match &e {
                        mpd_client::client::ConnectionError::Protocol(p) => proto_err_kind(p),
                        mpd_client::client::ConnectionError::InvalidResponse => "invalid_response".to_string(),
                    };
                    log(&self.m, json!({"e": "event", "t": "closed", "name": [], "kind": kind}))
                }
            }
        }
    }

    async fn batch(&mut self, steps: &[Value]) {
        for st in steps {
            if st["op"].as_str() == Some("timeout") {
                log(&self.m, json!({"e": "timeout"}));
                tokio::time::advance(Duration::from_secs(3600)).await;
            } else {
                self.apply(st);
            }
        }
        settle(&self.m).await;
        self.drain_events().await;
        log(&self.m, json!({"e": "quiescent"}));
    }
}

pub fn run_one(run: &Value) -> Vec<Value> {
    let rt = tokio::runtime::Builder::new_current_thread().enable_time().start_paused(true).build().unwrap();
    let (cfg, cfgv) = parse_cfg(&run["cfg"]);
    let panics0 = crate::PANICS.load(std::sync::atomic::Ordering::SeqCst);
    let split_seed = run["cfg"]["split_seed"].as_u64().unwrap_or(0x9E3779B97F4A7C15) | 1;
    let m: Shared = Arc::new(Mutex::new(Sh::new(cfg, split_seed)));
    let ncallers = run["cfg"]["callers"].as_u64().unwrap_or(2) as usize;
    let observer_handle = run["cfg"]["observer"].as_bool().unwrap_or(true);
    let greeting = opt_bytes(&run["cfg"]["greeting"]).unwrap_or_else(|| b"OK MPD 0.23.5\n".to_vec());
    let password = opt_bytes(&run["cfg"]["password"]);
    let connect_kind = run["cfg"]["connect"].as_str().unwrap_or(if password.is_some() { "password" } else { "plain" }).to_string();
    let empty = vec![];
    let pre: Vec<Value> = run["pre"].as_array().cloned().unwrap_or_else(|| vec![json!([{"op": "deliver"}]), json!([{"op": "deliver"}])]);
    let batches = run["batches"].as_array().unwrap_or(&empty).clone();
    let run_id = run["run"].clone();
    let mm = m.clone();
    #[cfg(mpd_client_verif)]
    {
        // hook events of the code under test go into the same totally ordered log
        let hm = m.clone();
        mpd_client::protocol::verif::set_sink(Some(Box::new(move |ev, fields| {
            if ev.starts_with("rx_") {
                return; // buffer-level events of the receive loops: bound by `mpdv wire` / ReceiveTrace.tla, not here
            }
            let mut s = hm.lock().unwrap();
            let mut v = json!({"e": "hook", "h": ev, "some": -1, "ok": -1, "in_progress": -1});
            for (k, x) in fields {
                v[*k] = json!(*x);
            }
            s.log.push(v);
        })));
    }
    rt.block_on(async move {
        {
            let mut s = mm.lock().unwrap();
            let pic = s.cfg.pic.clone();
            let pic2 = s.cfg.pic2.clone();
            let sz = |o: &Option<Vec<u8>>| o.as_ref().map(|v| v.len() as i64).unwrap_or(-1);
            let _ = &cfgv;
            let scfg = s.cfg.clone();
            s.log.push(json!({"e": "reset", "run": run_id,
                "has_pw": password.is_some(), "pw": password.clone().unwrap_or_default(),
                "has_srv_pw": scfg.password.is_some(), "srv_pw": scfg.password.clone().unwrap_or_default(),
                "auth": scfg.auth, "lazy_events": run["cfg"]["lazy_events"].as_bool().unwrap_or(false), "greeting": greeting, "nh": ncallers + if observer_handle { 1 } else { 0 },
                "pic": {"embedded": sz(&pic.embedded), "file": sz(&pic.file), "hasMime": pic.mime.is_some(), "mime": pic.mime.clone().unwrap_or_default(),
                        "limit": pic.limit, "embedded_ack": pic.embedded_ack, "file_ack": pic.file_ack, "vary": pic.vary, "ackp": pic.ackp, "tfirst": pic.tfirst},
                "pic2": {"embedded": sz(&pic2.embedded), "file": sz(&pic2.file), "hasMime": pic2.mime.is_some(), "mime": pic2.mime.clone().unwrap_or_default(),
                        "limit": pic2.limit, "embedded_ack": pic2.embedded_ack, "file_ack": pic2.file_ack, "vary": pic2.vary, "ackp": pic2.ackp, "tfirst": pic2.tfirst}}));
            s.max_read = run["cfg"]["max_read"].as_u64().unwrap_or(0) as usize;
            s.max_write = run["cfg"]["max_write"].as_u64().unwrap_or(0) as usize;
            let gl = Line { t: "greet", k: vec![], v: greeting.clone(), a: 0, b: 0, bytes: greeting.clone() };
            if !greeting.is_empty() {
                s.emit("greet", vec![gl]);
            }
        }
        let io = MockIo(mm.clone());
        let pw = password.clone();
        let mut conn: JoinHandle<Result<(Client, ConnectionEvents), String>> = tokio::spawn(async move {
            let map = |e: ConnectWithPasswordError| match e {
                ConnectWithPasswordError::IncorrectPassword => "incorrect_password".to_string(),
                ConnectWithPasswordError::ProtocolError(p) => proto_err_kind(&p),
            };
            match connect_kind.as_str() {
                "plain" => Client::connect(io).await.map_err(|e| proto_err_kind(&e)),
                "password" => {
                    let p = String::from_utf8_lossy(&pw.unwrap_or_default()).to_string();
                    Client::connect_with_password(io, &p).await.map_err(map)
                }
                _ => {
                    let p = pw.map(|p| String::from_utf8_lossy(&p).to_string());
                    Client::connect_with_password_opt(io, p.as_deref()).await.map_err(map)
                }
            }
        });
        let mut d = Driver { m: mm.clone(), clients: vec![], issued: vec![0; ncallers + 1], pending: vec![], ev: None, ev_ended: false, lazy_events: run["cfg"]["lazy_events"].as_bool().unwrap_or(false) };
        // handshake phase: `pre` batches (deliver / fault only) until connect returns
        let mut result = None;
        let mut pi = 0;
        loop {
            settle(&mm).await;
            if conn.is_finished() {
                result = Some((&mut conn).await.unwrap());
                break;
            }
            if pi >= pre.len() {
                break;
            }
            for st in pre[pi].as_array().unwrap_or(&empty) {
                if st["op"].as_str() == Some("timeout") {
                    // a slow peer: time passes while the handshake is under way
                    log(&mm, json!({"e": "timeout"}));
                    tokio::time::advance(Duration::from_secs(3600)).await;
                } else {
                    d.apply(st);
                }
            }
            pi += 1;
        }
        match result {
            None => {
                log(&mm, json!({"e": "connected", "ok": false, "err": "pending", "version": []}));
                conn.abort();
                settle(&mm).await;
                log(&mm, json!({"e": "final", "closed": true, "closed_known": false, "ev_ended": true, "io_dropped": mm.lock().unwrap().dropped, "unresolved": [], "alive": false}));
                return;
            }
            Some(Err(e)) => {
                settle(&mm).await;
                log(&mm, json!({"e": "connected", "ok": false, "err": e, "version": []}));
                log(&mm, json!({"e": "final", "closed": true, "closed_known": false, "ev_ended": true, "io_dropped": mm.lock().unwrap().dropped, "unresolved": [], "alive": false}));
                return;
            }
            Some(Ok((client, ev))) => {
                log(&mm, json!({"e": "connected", "ok": true, "err": "", "version": client.protocol_version().as_bytes()}));
                // callers 0..ncallers-1 plus one observer handle (index ncallers)
                for _ in 0..ncallers {
                    d.clients.push(Some(client.clone()));
                }
                if observer_handle {
                    d.clients.push(Some(client));
                } else {
                    d.clients.push(None);
                }
                d.ev = Some(ev);
            }
        }
        settle(&mm).await;
        d.drain_events().await;
        log(&mm, json!({"e": "quiescent"}));
        for b in &batches {
            d.batch(b.as_array().unwrap_or(&empty)).await;
        }
        // drain to a fixpoint: deliver everything, let timers expire, until nothing moves
        d.apply(&json!({"op": "wresume"}));
        if d.lazy_events {
            // from here on the application reads its events
            d.lazy_events = false;
            log(&mm, json!({"e": "events_eager"}));
            d.drain_events().await;
            log(&mm, json!({"e": "quiescent"}));
        }
        log(&mm, json!({"e": "drain"}));
        let mut stable = 0;
        let mut rounds = 0;
        // (bounded: a client may legitimately keep exchanging noidle / idle on its own timer for ever - one round per outstanding request
        // plus a margin is enough for everything that was issued to be answered)
        let cap = 60 + 2 * d.issued.iter().sum::<usize>();
        while stable < 2 && rounds < cap {
            rounds += 1;
            let before = mm.lock().unwrap().log.len();
            d.batch(&[json!({"op": "deliver"})]).await;
            d.batch(&[json!({"op": "timeout"})]).await;
            let after = mm.lock().unwrap().log.len();
            // each iteration logs: (deliver|noop), quiescent, timeout, quiescent = 4 records when nothing moves
            if after - before <= 4 {
                stable += 1
            } else {
                stable = 0
            }
        }
        let unresolved: Vec<Value> = d.pending.iter().filter(|p| !p.cancelled && *p.started.lock().unwrap() && !*p.done.lock().unwrap()).map(|p| json!([p.c, p.n])).collect();
        let observer = d.clients.last().and_then(|x| x.as_ref());
        let (closed, known) = match &observer {
            Some(c) => (c.is_connection_closed(), true),
            None => (true, false),
        };
        let alive = { let s = mm.lock().unwrap(); !s.eof && !s.rerr && !s.werr && !s.silent && s.mode != Mode::List };
        log(&mm, json!({"e": "final", "closed": closed, "closed_known": known, "ev_ended": d.ev_ended, "io_dropped": mm.lock().unwrap().dropped, "unresolved": unresolved, "alive": alive}));
        // probe: a request issued after the end must fail at once; on a live connection it must be answered
        if d.clients.last().map(|x| x.is_some()).unwrap_or(false) {
            let oc = d.clients.len() - 1;
            d.issue(&json!({"op": "issue", "c": oc, "kind": "raw", "cmds": [{}]}));
            for _ in 0..4 {
                settle(&mm).await;
                {
                    mm.lock().unwrap().deliver_bytes(usize::MAX);
                }
                settle(&mm).await;
            }
        }
        let unresolved2: Vec<Value> = d.pending.iter().filter(|p| !p.cancelled && !*p.done.lock().unwrap()).map(|p| json!([p.c, p.n])).collect();
        log(&mm, json!({"e": "drop_handle", "c": -1, "left": 0}));
        for p in d.pending.drain(..) {
            p.handle.abort();
        }
        d.clients.clear();
        settle(&mm).await;
        d.drain_events().await;
        let dropped = mm.lock().unwrap().dropped;
        log(&mm, json!({"e": "end", "unresolved": unresolved2, "ev_ended": d.ev_ended, "io_dropped": dropped, "panics": crate::PANICS.load(std::sync::atomic::Ordering::SeqCst) - panics0}));
    });
    #[cfg(mpd_client_verif)]
    mpd_client::protocol::verif::set_sink(None);
    let out = std::mem::take(&mut m.lock().unwrap().log);
    out
}

pub fn main(args: &[String]) -> i32 {
    let input = std::fs::read_to_string(&args[0]).expect("schedule file");
    let out = std::fs::File::create(&args[1]).expect("trace file");
    let mut out = std::io::BufWriter::new(out);
    let mut nruns = 0;
    for l in input.lines() {
        if l.trim().is_empty() {
            continue;
        }
        let run: Value = serde_json::from_str(l).expect("schedule json");
        let res = std::panic::catch_unwind(|| run_one(&run));
        match res {
            Ok(log) => {
                for v in log {
                    writeln!(out, "{}", v).unwrap();
                }
            }
            Err(_) => {
                writeln!(out, "{}", json!({"e": "harness_panic", "run": run["run"]})).unwrap();
            }
        }
        nruns += 1;
    }
    out.flush().unwrap();
    eprintln!("session: {nruns} runs");
    0
}
