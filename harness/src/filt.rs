//! Filter driver (C11): builds `Filter` values through the public API from a mirror tree and records the
//! bytes of the real find / count / list commands that carry them.

use crate::codec::{bytes_of, wire_of};
use mpd_client::commands::{Command as _, Count, CountGrouped, Find, List};
use mpd_client::filter::{Filter, Operator};
use mpd_client::tag::Tag;
use serde_json::{json, Value};
use std::io::Write;
use std::panic::{catch_unwind, AssertUnwindSafe};

fn s(v: &Value) -> String {
    String::from_utf8(bytes_of(v)).expect("utf8 in filter case")
}

fn op_of(v: &Value) -> Operator {
    match s(v).as_str() {
        "==" => Operator::Equal,
        "!=" => Operator::NotEqual,
        "contains" => Operator::Contain,
        "=~" => Operator::Match,
        _ => Operator::NotMatch,
    }
}

pub fn tag_of(v: &Value) -> Tag {
    Tag::try_from(s(v).as_str()).expect("tag")
}

/// `pre`: the (sub-)filter is rendered once, or cloned and the clone rendered, BEFORE it is combined further - what a
/// user does who sends a filter and then refines it; the later rendering must be that of the final expression.
pub fn build(t: &Value) -> Filter {
    let f = build_node(t);
    match t["pre"].as_str().unwrap_or("") {
        "render" => {
            let mut c = mpd_client::protocol::command::Command::new("x");
            let _ = c.add_argument(&f);
            f
        }
        "clone" => {
            let g = f.clone();
            let mut c = mpd_client::protocol::command::Command::new("x");
            let _ = c.add_argument(&f);
            drop(f);
            g
        }
        "clone_after" => {
            let mut c = mpd_client::protocol::command::Command::new("x");
            let _ = c.add_argument(&f);
            f.clone()
        }
        _ => f,
    }
}

fn build_node(t: &Value) -> Filter {
    match t["k"].as_str().unwrap() {
        "tag" => match t["ctor"].as_str().unwrap_or("new") {
            "tag" => Filter::tag(tag_of(&t["tag"]), s(&t["v"])),
            "exists" => Filter::tag_exists(tag_of(&t["tag"])),
            "absent" => Filter::tag_absent(tag_of(&t["tag"])),
            _ => Filter::new(tag_of(&t["tag"]), op_of(&t["op"]), s(&t["v"])),
        },
        "not" => {
            if t["bang"].as_bool().unwrap_or(false) {
                !build(&t["e"])
            } else {
                build(&t["e"]).negate()
            }
        }
        _ => {
            // "and": es folded left with .and(); "rassoc": true folds right
            let es: Vec<Filter> = t["es"].as_array().unwrap().iter().map(build).collect();
            if t["rassoc"].as_bool().unwrap_or(false) {
                let mut it = es.into_iter().rev();
                let mut acc = it.next().unwrap();
                for e in it {
                    acc = e.and(acc);
                }
                acc
            } else {
                let mut it = es.into_iter();
                let mut acc = it.next().unwrap();
                for e in it {
                    acc = acc.and(e);
                }
                acc
            }
        }
    }
}

pub fn run_case(c: &Value) -> Value {
    let r = catch_unwind(AssertUnwindSafe(|| {
        let f = build(&c["tree"]);
        let (wire, argpos) = match c["cmd"].as_str().unwrap_or("find") {
            "find" => (wire_of(&Find::new(f).command()), 1),
            "count" => (wire_of(&Count::new(f).command()), 1),
            "countg" => (wire_of(&CountGrouped::new(Tag::Album).filter(f).command()), 1),
            _ => (wire_of(&List::new(Tag::Title).filter(f).command()), 2),
        };
        json!({"e": "filter", "id": c["id"], "cmd": c["cmd"], "tree": c["tree"], "wire": wire, "argpos": argpos})
    }));
    r.unwrap_or_else(|_| json!({"e": "panic", "id": c["id"], "kind": "filter"}))
}

pub fn main(args: &[String]) -> i32 {
    let input = std::fs::read_to_string(&args[0]).expect("case file");
    let out = std::fs::File::create(&args[1]).expect("out file");
    let mut out = std::io::BufWriter::new(out);
    let mut n = 0;
    for l in input.lines() {
        if l.trim().is_empty() {
            continue;
        }
        let c: Value = serde_json::from_str(l).expect("case json");
        writeln!(out, "{}", run_case(&c)).unwrap();
        n += 1;
    }
    out.flush().unwrap();
    eprintln!("filter: {n} cases");
    0
}
