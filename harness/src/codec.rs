//! Request-encoding driver: builds commands / command lists through the public builder API and records
//! the bytes the real `Connection::send` / `send_list` put on the wire. TLC (CodecTrace.tla) reads those
//! bytes with the specification's model of MPD's tokenizer.

use bytes::{BufMut, BytesMut};
use mpd_client::protocol::{
    command::{Argument, Command, CommandList},
    Connection,
};
use serde_json::{json, Value};
use std::borrow::Cow;
use std::io::{self, Read, Write};
use std::panic::{catch_unwind, AssertUnwindSafe};
use std::time::Duration;

pub struct Pipe {
    rd: io::Cursor<Vec<u8>>,
    pub wr: Vec<u8>,
}

impl Pipe {
    pub fn new() -> Pipe {
        Pipe { rd: io::Cursor::new(b"OK MPD 0.23.5\n".to_vec()), wr: vec![] }
    }
}
impl Read for Pipe {
    fn read(&mut self, buf: &mut [u8]) -> io::Result<usize> {
        self.rd.read(buf)
    }
}
impl Write for Pipe {
    fn write(&mut self, buf: &[u8]) -> io::Result<usize> {
        self.wr.extend_from_slice(buf);
        Ok(buf.len())
    }
    fn flush(&mut self) -> io::Result<()> {
        Ok(())
    }
}

/// A user-defined argument renderer that emits arbitrary bytes.
pub struct Raw(pub Vec<u8>);
impl Argument for Raw {
    fn render(&self, buf: &mut BytesMut) {
        buf.put_slice(&self.0);
    }
}

pub fn bytes_of(v: &Value) -> Vec<u8> {
    v.as_array().map(|a| a.iter().map(|x| x.as_u64().unwrap_or(0) as u8).collect()).unwrap_or_default()
}

pub fn wire_of(cmd: &Command) -> Vec<u8> {
    let mut c = Connection::connect(Pipe::new()).expect("connect over pipe");
    c.send(cmd.clone()).expect("send");
    c.into_inner().wr
}

/// Async flavour over a transport that accepts at most 5 bytes per write call (short writes are legal).
pub struct ShortPipe {
    rd: io::Cursor<Vec<u8>>,
    pub wr: Vec<u8>,
}
impl tokio::io::AsyncRead for ShortPipe {
    fn poll_read(mut self: std::pin::Pin<&mut Self>, _: &mut std::task::Context<'_>, buf: &mut tokio::io::ReadBuf<'_>) -> std::task::Poll<io::Result<()>> {
        let mut tmp = vec![0u8; buf.remaining()];
        let n = self.rd.read(&mut tmp).unwrap_or(0);
        buf.put_slice(&tmp[..n]);
        std::task::Poll::Ready(Ok(()))
    }
}
impl tokio::io::AsyncWrite for ShortPipe {
    fn poll_write(mut self: std::pin::Pin<&mut Self>, _: &mut std::task::Context<'_>, b: &[u8]) -> std::task::Poll<io::Result<usize>> {
        let n = b.len().min(5);
        self.wr.extend_from_slice(&b[..n]);
        std::task::Poll::Ready(Ok(n))
    }
    fn poll_flush(self: std::pin::Pin<&mut Self>, _: &mut std::task::Context<'_>) -> std::task::Poll<io::Result<()>> {
        std::task::Poll::Ready(Ok(()))
    }
    fn poll_shutdown(self: std::pin::Pin<&mut Self>, _: &mut std::task::Context<'_>) -> std::task::Poll<io::Result<()>> {
        std::task::Poll::Ready(Ok(()))
    }
}

pub fn wire_async(cmd: Option<&Command>, list: Option<CommandList>) -> Vec<u8> {
    let rt = tokio::runtime::Builder::new_current_thread().build().unwrap();
    rt.block_on(async {
        let io = ShortPipe { rd: io::Cursor::new(b"OK MPD 0.23.5\n".to_vec()), wr: vec![] };
        let mut c = mpd_client::protocol::AsyncConnection::connect(io).await.expect("async connect over pipe");
        if let Some(cmd) = cmd {
            c.send(cmd.clone()).await.expect("async send");
        }
        if let Some(list) = list {
            c.send_list(list).await.expect("async send_list");
        }
        c.into_inner().wr
    })
}

pub fn wire_of_list(list: CommandList) -> Vec<u8> {
    let mut c = Connection::connect(Pipe::new()).expect("connect over pipe");
    c.send_list(list).expect("send_list");
    c.into_inner().wr
}

fn add(cmd: &mut Command, a: &Value) -> Result<(), String> {
    let ty = a["ty"].as_str().unwrap_or("str");
    let b = bytes_of(&a["v"]);
    let r = match ty {
        "str" => cmd.add_argument(std::str::from_utf8(&b).map_err(|_| "not utf8".to_string())?),
        "string" => cmd.add_argument(String::from_utf8(b).map_err(|_| "not utf8".to_string())?),
        "cow" => cmd.add_argument(Cow::<str>::Owned(String::from_utf8(b).map_err(|_| "not utf8".to_string())?)),
        "cowb" => {
            let s = String::from_utf8(b).map_err(|_| "not utf8".to_string())?;
            cmd.add_argument(Cow::<str>::Borrowed(s.as_str()))
        }
        // typed values of mpd_client that render themselves: a hand-built catch-all tag may hold anything
        "tag" => cmd.add_argument(mpd_client::tag::Tag::Other(String::from_utf8(b).map_err(|_| "not utf8".to_string())?.into())),
        "tagref" => {
            let t = mpd_client::tag::Tag::Other(String::from_utf8(b).map_err(|_| "not utf8".to_string())?.into());
            cmd.add_argument(&t)
        }
        "u64" => cmd.add_argument(a["n"].as_u64().unwrap_or(0)),
        "u8" => cmd.add_argument(a["n"].as_u64().unwrap_or(0) as u8),
        "usize" => cmd.add_argument(a["n"].as_u64().unwrap_or(0) as usize),
        "bool" => cmd.add_argument(a["n"].as_u64().unwrap_or(0) != 0),
        "dur" => cmd.add_argument(Duration::from_millis(a["n"].as_u64().unwrap_or(0))),
        _ => cmd.add_argument(Raw(b)),
    };
    r.map_err(|e| e.to_string())
}

fn build_cmd(c: &Value) -> (Value, Option<Command>) {
    let name_b = bytes_of(&c["name"]);
    let name = match std::str::from_utf8(&name_b) {
        Ok(s) => s.to_string(),
        Err(_) => return (json!({"build_ok": false, "steps": [], "wire": [], "wire_async_same": true, "not_utf8": true}), None),
    };
    let mut cmd = match Command::build(&name) {
        Ok(c) => c,
        Err(_) => return (json!({"build_ok": false, "steps": [], "wire": [], "wire_async_same": true, "not_utf8": false}), None),
    };
    let mut steps = vec![];
    let empty = vec![];
    for a in c["args"].as_array().unwrap_or(&empty) {
        let before = cmd.clone();
        let wire_before = wire_of(&cmd);
        let r = add(&mut cmd, a);
        let wire_after = wire_of(&cmd);
        // the same argument alone on a fixed command, for per-argument cause attribution (C06)
        let mut solo_cmd = Command::new("x");
        let solo = match add(&mut solo_cmd, a) {
            Ok(()) => wire_of(&solo_cmd),
            Err(_) => vec![],
        };
        steps.push(json!({"ty": a["ty"], "v": a["v"], "ok": r.is_ok(), "eq_prev": cmd == before, "same_wire": wire_after == wire_before,
                          "is_str": matches!(a["ty"].as_str().unwrap_or("str"), "str" | "string" | "cow" | "cowb"), "solo": solo}));
    }
    let wire = wire_of(&cmd);
    let wa = wire_async(Some(&cmd), None);
    (json!({"build_ok": true, "steps": steps, "wire": wire, "wire_async_same": wa == wire, "not_utf8": false}), Some(cmd))
}

pub fn run_case(c: &Value) -> Value {
    let kind = c["kind"].as_str().unwrap_or("cmd");
    let r = catch_unwind(AssertUnwindSafe(|| match kind {
        "cmd" => {
            let (mut v, _) = build_cmd(c);
            v["e"] = json!("cmd");
            v["id"] = c["id"].clone();
            v["name"] = c["name"].clone();
            v
        }
        "list" => {
            // cmds: list of command cases; path: how the list is assembled
            let empty = vec![];
            let mut built: Vec<Command> = vec![];
            let mut lines = vec![];
            for cc in c["cmds"].as_array().unwrap_or(&empty) {
                let (v, cmd) = build_cmd(cc);
                if let Some(cmd) = cmd {
                    lines.push(v["wire"].clone());
                    built.push(cmd);
                }
            }
            if built.is_empty() {
                return json!({"e": "list", "id": c["id"], "n": 0, "lines": [], "wire": [], "wire_async_same": true, "len": 0, "path": c["path"]});
            }
            let path = c["path"].as_str().unwrap_or("add");
            let mut it = built.clone().into_iter();
            let mut list = CommandList::new(it.next().unwrap());
            match path {
                "command" => {
                    for x in it {
                        list = list.command(x);
                    }
                }
                "extend" => list.extend(it),
                _ => {
                    for x in it {
                        list.add(x);
                    }
                }
            }
            let len = list.len();
            let wa = wire_async(None, Some(list.clone()));
            let wire = wire_of_list(list);
            json!({"e": "list", "id": c["id"], "n": built.len(), "lines": lines, "wire": wire, "wire_async_same": wa == wire, "len": len, "path": path})
        }
        _ => json!({"e": "noop", "id": c["id"]}),
    }));
    match r {
        Ok(v) => v,
        Err(_) => json!({"e": "panic", "id": c["id"], "kind": kind}),
    }
}

pub fn main(args: &[String]) -> i32 {
    let input = std::fs::read_to_string(&args[0]).expect("case file");
    let out = std::fs::File::create(&args[1]).expect("out file");
    let mut out = std::io::BufWriter::new(out);
    let mut n = 0;
    for l in input.lines() {
        if l.trim().is_empty() {
            continue;
        }
        let c: Value = serde_json::from_str(l).expect("case json");
        writeln!(out, "{}", run_case(&c)).unwrap();
        n += 1;
    }
    out.flush().unwrap();
    eprintln!("codec: {n} cases");
    0
}
