//! Tag / Subsystem driver (C20): parses candidate strings, builds named and catch-all values and records how
//! they compare, order, hash and behave as map keys. Protocol names are observed through public API only
//! (Argument::render for tags, Subsystem::as_str).

use bytes::BytesMut;
use mpd_client::client::Subsystem;
use mpd_client::protocol::command::Argument;
use mpd_client::tag::Tag;
use serde_json::{json, Value};
use std::collections::hash_map::DefaultHasher;
use std::collections::{BTreeMap, HashMap, HashSet};
use std::hash::{Hash, Hasher};
use std::io::Write;

fn bytes_of(v: &Value) -> Vec<u8> {
    v.as_array().map(|a| a.iter().map(|x| x.as_u64().unwrap_or(0) as u8).collect()).unwrap_or_default()
}
fn name_of(t: &Tag) -> Vec<u8> {
    let mut b = BytesMut::new();
    t.render(&mut b);
    b.to_vec()
}
fn h<T: Hash>(t: &T) -> u64 {
    let mut s = DefaultHasher::new();
    t.hash(&mut s);
    s.finish()
}

pub fn named_tags() -> Vec<Tag> {
    vec![Tag::Album, Tag::AlbumArtist, Tag::AlbumArtistSort, Tag::AlbumSort, Tag::Artist, Tag::ArtistSort, Tag::Comment, Tag::Composer, Tag::ComposerSort, Tag::Conductor,
         Tag::Date, Tag::Disc, Tag::Ensemble, Tag::Genre, Tag::Grouping, Tag::Label, Tag::Location, Tag::Movement, Tag::MovementNumber, Tag::MusicBrainzArtistId,
         Tag::MusicBrainzRecordingId, Tag::MusicBrainzReleaseArtistId, Tag::MusicBrainzReleaseId, Tag::MusicBrainzTrackId, Tag::MusicBrainzWorkId, Tag::Name, Tag::OriginalDate,
         Tag::Performer, Tag::Title, Tag::Track, Tag::Work, Tag::any()]
}

pub fn named_subsystems() -> Vec<Subsystem> {
    vec![Subsystem::Database, Subsystem::Message, Subsystem::Mixer, Subsystem::Options, Subsystem::Output, Subsystem::Partition, Subsystem::Player, Subsystem::Queue,
         Subsystem::Sticker, Subsystem::StoredPlaylist, Subsystem::Subscription, Subsystem::Update, Subsystem::Neighbor, Subsystem::Mount]
}

pub fn main(args: &[String]) -> i32 {
    let input: Value = serde_json::from_str(&std::fs::read_to_string(&args[0]).expect("case file")).expect("json");
    let out = std::fs::File::create(&args[1]).expect("out file");
    let mut out = std::io::BufWriter::new(out);
    let mut id = 0;
    // ---- tag parsing
    let mut tagvals: Vec<(String, Tag)> = vec![];
    for t in named_tags() {
        tagvals.push(("named".into(), t));
    }
    for c in input["tag_strings"].as_array().unwrap() {
        let b = bytes_of(c);
        let Ok(s) = std::str::from_utf8(&b) else { continue };
        let r = std::panic::catch_unwind(|| Tag::try_from(s));
        match r {
            Err(_) => writeln!(out, "{}", json!({"e": "tag_parse", "id": id, "s": b, "ok": false, "name": [], "panicked": true, "rt_eq": false})).unwrap(),
            Ok(Err(_)) => writeln!(out, "{}", json!({"e": "tag_parse", "id": id, "s": b, "ok": false, "name": [], "panicked": false, "rt_eq": false})).unwrap(),
            Ok(Ok(t)) => {
                // parsing a tag's own protocol name gives back an equal tag
                let nm = name_of(&t);
                let rt = std::str::from_utf8(&nm).ok().and_then(|n| Tag::try_from(n).ok()).map(|t2| t2 == t && h(&t2) == h(&t)).unwrap_or(false);
                let str_eq = t == s || nm != b; // PartialEq<&str> compares with the protocol name
                writeln!(out, "{}", json!({"e": "tag_parse", "id": id, "s": b, "ok": true, "name": nm, "panicked": false, "rt_eq": rt && str_eq})).unwrap();
                tagvals.push(("parsed".into(), t));
            }
        }
        id += 1;
    }
    for c in input["tag_others"].as_array().unwrap() {
        let b = bytes_of(c);
        if let Ok(s) = std::str::from_utf8(&b) {
            tagvals.push(("other".into(), Tag::Other(s.into())));
        }
    }
    // ---- every pair of tag values
    let limit = input["pair_limit"].as_u64().unwrap_or(u64::MAX) as usize;
    let step = ((tagvals.len() * tagvals.len()) / limit.max(1)).max(1);
    let mut k = 0usize;
    for (ka, a) in &tagvals {
        for (kb, b) in &tagvals {
            k += 1;
            if k % step != 0 {
                continue;
            }
            let mut hm = HashMap::new();
            hm.insert(a.clone(), 1);
            let mut bm = BTreeMap::new();
            bm.insert(a.clone(), 1);
            let mut hs = HashSet::new();
            hs.insert(a.clone());
            hs.insert(b.clone());
            let cmp = match a.cmp(b) {
                std::cmp::Ordering::Less => -1,
                std::cmp::Ordering::Equal => 0,
                std::cmp::Ordering::Greater => 1,
            };
            // Tag == &str compares with the protocol name, exactly like tag-to-tag equality
            let bname = String::from_utf8(name_of(b)).unwrap_or_default();
            let str_eq = *a == bname.as_str();
            writeln!(out, "{}", json!({"e": "tag_pair", "id": id, "a": name_of(a), "b": name_of(b), "ka": ka, "kb": kb, "eq": a == b, "str_eq": str_eq, "cmp": cmp,
                "pcmp_same": a.partial_cmp(b) == Some(a.cmp(b)), "hash_eq": h(a) == h(b), "map_hit": hm.contains_key(b), "btree_hit": bm.contains_key(b), "set_len": hs.len()})).unwrap();
            id += 1;
        }
    }
    // ---- subsystems
    let mut subs: Vec<(String, Subsystem)> = named_subsystems().into_iter().map(|s| ("named".to_string(), s)).collect();
    for c in input["sub_others"].as_array().unwrap() {
        let b = bytes_of(c);
        if let Ok(s) = std::str::from_utf8(&b) {
            subs.push(("other".into(), Subsystem::Other(s.into())));
        }
    }
    for (ka, a) in &subs {
        for (kb, b) in &subs {
            let mut hm = HashMap::new();
            hm.insert(a.clone(), 1);
            let mut hs = HashSet::new();
            hs.insert(a.clone());
            hs.insert(b.clone());
            writeln!(out, "{}", json!({"e": "sub_pair", "id": id, "a": a.as_str().as_bytes(), "b": b.as_str().as_bytes(), "ka": ka, "kb": kb, "eq": a == b, "hash_eq": h(a) == h(b),
                "map_hit": hm.contains_key(b), "set_len": hs.len()})).unwrap();
            id += 1;
        }
    }
    writeln!(out, "{}", json!({"e": "variants", "id": id, "tags": tagvals.iter().filter(|(k, _)| k == "named").map(|(_, t)| name_of(t)).collect::<Vec<_>>(),
        "subs": named_subsystems().iter().map(|s| s.as_str().as_bytes().to_vec()).collect::<Vec<_>>()})).unwrap();
    out.flush().unwrap();
    eprintln!("names: {id} records");
    0
}
