//! Mock transport + simulated MPD server (the Rust twin of spec/World.tla's server rules).
//!
//! Nothing in here is trusted: every line consumed and every reply emitted is written to the trace
//! and re-derived by TLC from the specification; a disagreement is a harness error (exit 2).

use serde_json::{json, Value};
use std::collections::VecDeque;
use std::io;
use std::pin::Pin;
use std::sync::{Arc, Mutex};
use std::task::{Context, Poll, Waker};
use tokio::io::{AsyncRead, AsyncWrite, ReadBuf};

#[derive(Clone, Copy, PartialEq, Eq, Debug)]
pub enum Mode {
    Ready,
    Idle,
    List,
}

/// One protocol line of server output, in the structured form shared with the specification.
#[derive(Clone, Debug)]
pub struct Line {
    pub t: &'static str, // f | ok | lok | ack | bin | bad | greet
    pub k: Vec<u8>,
    pub v: Vec<u8>,
    pub a: u64,
    pub b: u64,
    pub bytes: Vec<u8>,
}

impl Line {
    pub fn ok() -> Line {
        Line { t: "ok", k: vec![], v: vec![], a: 0, b: 0, bytes: b"OK\n".to_vec() }
    }
    pub fn lok() -> Line {
        Line { t: "lok", k: vec![], v: vec![], a: 0, b: 0, bytes: b"list_OK\n".to_vec() }
    }
    pub fn f(k: &[u8], v: &[u8]) -> Line {
        let mut bytes = k.to_vec();
        bytes.extend_from_slice(b": ");
        bytes.extend_from_slice(v);
        bytes.push(b'\n');
        Line { t: "f", k: k.to_vec(), v: v.to_vec(), a: 0, b: 0, bytes }
    }
    pub fn ack(code: u64, idx: u64, cmd: &[u8], msg: &[u8]) -> Line {
        let mut bytes = format!("ACK [{code}@{idx}] {{").into_bytes();
        bytes.extend_from_slice(cmd);
        bytes.extend_from_slice(b"} ");
        bytes.extend_from_slice(msg);
        bytes.push(b'\n');
        Line { t: "ack", k: cmd.to_vec(), v: msg.to_vec(), a: code, b: idx, bytes }
    }
    /// `binary: N` header line plus payload plus LF, as one unit.
    pub fn bin(payload: &[u8]) -> Line {
        let mut bytes = format!("binary: {}\n", payload.len()).into_bytes();
        bytes.extend_from_slice(payload);
        bytes.push(b'\n');
        // k carries a short digest so that the trace stays small: first 4 and last 4 payload bytes
        let mut dig = payload.iter().take(4).cloned().collect::<Vec<u8>>();
        dig.extend(payload.iter().rev().take(4));
        Line { t: "bin", k: dig, v: vec![], a: payload.len() as u64, b: 0, bytes }
    }
    pub fn bad(raw: &[u8]) -> Line {
        Line { t: "bad", k: vec![], v: raw.to_vec(), a: 0, b: 0, bytes: raw.to_vec() }
    }
    pub fn json(&self) -> Value {
        json!({"t": self.t, "k": self.k, "v": self.v, "a": self.a, "b": self.b, "len": self.bytes.len()})
    }
}

#[derive(Clone, Debug, Default)]
pub struct Picture {
    pub embedded: Option<Vec<u8>>, // readpicture source
    pub file: Option<Vec<u8>>,     // albumart source
    pub mime: Option<Vec<u8>>,
    pub limit: usize,
    /// 0 = command known; otherwise ACK with this code for readpicture
    pub embedded_ack: u64,
    pub file_ack: u64,
    /// the server returns fewer bytes than the limit for some offsets (see World.tla: ChunkLen)
    pub vary: bool,
    /// a scripted error (other than "unknown command") comes after `size` / `type` lines of partial output
    pub ackp: bool,
    /// the `type` line comes before the `size` line
    pub tfirst: bool,
}

#[derive(Clone, Debug)]
pub struct SrvCfg {
    pub password: Option<Vec<u8>>, // password the server accepts (None: any)
    pub auth: String,              // ok | ack | eof | garbage   (scripted verdict for a password line)
    pub pic: Picture,
    /// picture of URIs ending in "_alt.flac"
    pub pic2: Picture,
}

impl Default for SrvCfg {
    fn default() -> Self {
        SrvCfg { password: None, auth: "ok".into(), pic: Picture { limit: 8192, ..Default::default() }, pic2: Picture { limit: 8192, ..Default::default() } }
    }
}

pub struct Sh {
    /// emitted by the server, not yet readable: per line, the bytes still undelivered and the
    /// offset (relative to the remaining bytes) of the seeded half-line split, if still ahead
    pub s2c: VecDeque<(Vec<u8>, usize)>,
    pub readable: VecDeque<u8>,
    pub eof: bool,
    pub rerr: bool,
    pub werr: bool,
    pub dropped: bool,
    pub max_read: usize,
    pub max_write: usize,
    /// write backpressure: Some(n) = accept n more bytes, then writes are Pending until resumed
    pub wstall: Option<usize>,
    pub wwaker: Option<Waker>,
    pub waker: Option<Waker>,
    pub log: Vec<Value>,
    pub progress: u64,
    pub idle_extra: u64,
    pub split_seed: u64,
    /// the seed as given (split_seed itself advances with every line)
    pub split_seed0: u64,
    // server
    pub mode: Mode,
    pub pend: Vec<String>,
    pub inline: Vec<u8>,
    pub list_acc: Vec<Vec<Vec<u8>>>,
    pub cfg: SrvCfg,
    pub silent: bool, // server no longer answers (after a scripted close)
}

impl Sh {
    pub fn new(cfg: SrvCfg, split_seed: u64) -> Sh {
        Sh {
            s2c: VecDeque::new(),
            readable: VecDeque::new(),
            eof: false,
            rerr: false,
            werr: false,
            dropped: false,
            max_read: 0,
            max_write: 0,
            wstall: None,
            wwaker: None,
            waker: None,
            log: vec![],
            progress: 0,
            idle_extra: 0,
            split_seed,
            split_seed0: split_seed,
            mode: Mode::Ready,
            pend: vec![],
            inline: vec![],
            list_acc: vec![],
            cfg,
            silent: false,
        }
    }

    pub fn wake(&mut self) {
        if let Some(w) = self.waker.take() {
            w.wake();
        }
    }

    fn next_split(&mut self, len: usize) -> usize {
        // xorshift; split point in 1..len (exclusive of both ends when possible)
        self.split_seed ^= self.split_seed << 13;
        self.split_seed ^= self.split_seed >> 7;
        self.split_seed ^= self.split_seed << 17;
        if len <= 1 {
            len
        } else {
            1 + (self.split_seed % (len as u64 - 1)) as usize
        }
    }

    pub fn emit(&mut self, kind: &str, lines: Vec<Line>) {
        let js: Vec<Value> = lines.iter().map(|l| l.json()).collect();
        self.log.push(json!({"e": "srv_out", "kind": kind, "lines": js}));
        for l in lines {
            let sp = self.next_split(l.bytes.len());
            self.s2c.push_back((l.bytes, sp));
        }
    }

    pub fn undelivered(&self) -> usize {
        self.s2c.iter().map(|(b, _)| b.len()).sum()
    }

    /// Move `n` bytes from the pipe to the client's readable buffer.
    pub fn deliver_bytes(&mut self, mut n: usize) -> usize {
        let mut moved = 0;
        while n > 0 {
            let Some((b, sp)) = self.s2c.front_mut() else { break };
            let k = n.min(b.len());
            self.readable.extend(b.drain(..k));
            *sp = sp.saturating_sub(k);
            moved += k;
            n -= k;
            if b.is_empty() {
                self.s2c.pop_front();
            }
        }
        if moved > 0 {
            self.log.push(json!({"e": "deliver", "n": moved}));
            self.progress += 1;
            self.wake();
        }
        moved
    }

    /// Deliver `units` half-line units (a unit ends at the seeded split point or at the line end).
    pub fn deliver_units(&mut self, units: usize) -> usize {
        let mut n = 0;
        let mut it = self.s2c.iter();
        let mut cur = it.next();
        let mut consumed_in_cur = 0usize;
        for _ in 0..units {
            let Some((b, sp)) = cur else { break };
            let sp_eff = if *sp > consumed_in_cur && *sp < b.len() { *sp } else { b.len() };
            n += sp_eff - consumed_in_cur;
            consumed_in_cur = sp_eff;
            if consumed_in_cur >= b.len() {
                cur = it.next();
                consumed_in_cur = 0;
            }
        }
        self.deliver_bytes(n)
    }

    fn idle_reply(&mut self) {
        let p = std::mem::take(&mut self.pend);
        let mut ls: Vec<Line> = p.iter().map(|s| Line::f(b"changed", s.as_bytes())).collect();
        // a reply to idle may carry other fields too (see World.tla: idleExtra)
        let extra = std::mem::take(&mut self.idle_extra);
        if extra == 1 && !ls.is_empty() {
            ls.insert(1, Line::f(b"partition", b"default"));
        } else if extra == 2 {
            ls.insert(0, Line::f(b"partition", b"default"));
        }
        ls.push(Line::ok());
        self.mode = Mode::Ready;
        self.emit("idle", ls);
    }

    pub fn change(&mut self, subs: &[String], extra: u64) {
        self.idle_extra = extra;
        let mut names = vec![];
        for s in subs {
            if !self.pend.contains(s) && !names.contains(s) {
                names.push(s.clone());
            }
        }
        self.log.push(json!({"e": "change", "extra": extra, "subs": subs.iter().map(|x| x.as_bytes().to_vec()).collect::<Vec<_>>()}));
        self.pend.extend(names);
        if self.mode == Mode::Idle && !self.silent {
            self.idle_reply();
        }
    }

    /// Frame lines (without terminator) or an error line for one ordinary command.
    fn exec(&mut self, words: &[Vec<u8>], idx: u64) -> Result<Vec<Line>, Vec<Line>> {
        let name = words[0].as_slice();
        match name {
            b"req" => {
                let id = words.get(1).cloned().unwrap_or_default();
                let mut fail = false;
                let mut pad = 0usize;
                for w in &words[2..] {
                    if w.as_slice() == b"fail" {
                        fail = true;
                    } else if w.first() == Some(&b'p') {
                        pad = std::str::from_utf8(&w[1..]).ok().and_then(|s| s.parse().ok()).unwrap_or(0);
                    }
                }
                if fail {
                    let mut msg = b"boom ".to_vec();
                    msg.extend_from_slice(&id);
                    // a failing command may already have printed part of its output before the ACK
                    let mut ls = vec![];
                    for i in 1..=pad {
                        ls.push(Line::f(b"pad", i.to_string().as_bytes()));
                    }
                    ls.push(Line::ack(2, idx, b"req", &msg));
                    Err(ls)
                } else {
                    let mut ls = vec![Line::f(b"echo", &id)];
                    for i in 1..=pad {
                        ls.push(Line::f(b"pad", i.to_string().as_bytes()));
                    }
                    Ok(ls)
                }
            }
            b"ping" => Ok(vec![]),
            // typed commands with distinguishable replies (functions of their argument): World.tla ExecT
            b"sticker" => {
                let uri = words.get(3).cloned().unwrap_or_default();
                let mut v = b"n=".to_vec();
                v.extend_from_slice(&uri);
                Ok(vec![Line::f(b"sticker", &v)])
            }
            b"update" => Ok(vec![Line::f(b"updating_db", b"7")]),
            b"addid" => {
                let uri = words.get(1).cloned().unwrap_or_default();
                Ok(vec![Line::f(b"Id", uri.len().to_string().as_bytes())])
            }
            b"channels" => Ok(vec![Line::f(b"channel", b"c1"), Line::f(b"channel", b"c2")]),
            b"readpicture" | b"albumart" => {
                let embedded = name == b"readpicture";
                let off: usize = words.get(2).and_then(|w| std::str::from_utf8(w).ok()).and_then(|s| s.parse().ok()).unwrap_or(0);
                let alt = words.get(1).map(|u| u.ends_with(b"_alt.flac")).unwrap_or(false);
                let pic = if alt { self.cfg.pic2.clone() } else { self.cfg.pic.clone() };
                let (src, ack) = if embedded { (pic.embedded, pic.embedded_ack) } else { (pic.file, pic.file_ack) };
                if ack != 0 {
                    let mut ls = vec![];
                    if pic.ackp && ack != 5 {
                        ls.push(Line::f(b"size", src.as_ref().map(|d| d.len()).unwrap_or(0).to_string().as_bytes()));
                        if embedded {
                            if let Some(m) = &pic.mime {
                                ls.push(Line::f(b"type", m));
                            }
                        }
                    }
                    ls.push(Line::ack(ack, idx, if ack == 5 { b"" } else { name }, b"scripted error"));
                    return Err(ls);
                }
                match src {
                    None => Ok(vec![]), // no picture from this source: an empty reply
                    Some(data) => {
                        if off > data.len() {
                            return Err(vec![Line::ack(2, idx, name, b"Bad file offset")]);
                        }
                        let lim = if pic.vary && off % 3 == 1 && pic.limit > 1 { pic.limit - 1 } else { pic.limit };
                        let n = lim.min(data.len() - off);
                        let mut ls = vec![Line::f(b"size", data.len().to_string().as_bytes())];
                        if embedded {
                            if let Some(m) = &pic.mime {
                                if pic.tfirst {
                                    ls.insert(0, Line::f(b"type", m));
                                } else {
                                    ls.push(Line::f(b"type", m));
                                }
                            }
                        }
                        ls.push(Line::bin(&data[off..off + n]));
                        Ok(ls)
                    }
                }
            }
            _ => {
                let mut msg = b"unknown command \"".to_vec();
                msg.extend_from_slice(name);
                msg.push(b'"');
                Err(vec![Line::ack(5, idx, b"", &msg)])
            }
        }
    }

    fn line(&mut self, l: Vec<u8>) {
        self.log.push(json!({"e": "cli_line", "l": l}));
        if self.silent {
            return;
        }
        let words = split_words(&l);
        if words.is_empty() {
            self.emit("cmd", vec![Line::ack(5, 0, b"", b"No command given")]);
            return;
        }
        let name = words[0].clone();
        if self.mode == Mode::List {
            if name == b"command_list_end" {
                let acc = std::mem::take(&mut self.list_acc);
                self.mode = Mode::Ready;
                let mut out = vec![];
                let mut failed = false;
                for (i, c) in acc.iter().enumerate() {
                    match self.exec(c, i as u64) {
                        Ok(ls) => {
                            out.extend(ls);
                            out.push(Line::lok());
                        }
                        Err(e) => {
                            out.extend(e);
                            failed = true;
                            break;
                        }
                    }
                }
                if !failed {
                    out.push(Line::ok());
                }
                self.emit("list", out);
            } else {
                self.list_acc.push(words);
            }
            return;
        }
        match name.as_slice() {
            b"idle" => {
                if !self.pend.is_empty() {
                    self.idle_reply();
                } else {
                    self.mode = Mode::Idle;
                }
            }
            b"noidle" => {
                if self.mode == Mode::Idle {
                    self.mode = Mode::Ready;
                    self.emit("noidle", vec![Line::ok()]);
                }
            }
            b"command_list_ok_begin" => {
                self.mode = Mode::List;
                self.list_acc.clear();
            }
            b"password" => {
                let given = words.get(1).cloned().unwrap_or_default();
                let verdict = self.cfg.auth.clone();
                match verdict.as_str() {
                    "ok" => {
                        let good = self.cfg.password.as_ref().map(|p| *p == given).unwrap_or(true);
                        if good {
                            self.emit("auth", vec![Line::ok()]);
                        } else {
                            self.emit("auth", vec![Line::ack(3, 0, b"password", b"incorrect password")]);
                        }
                    }
                    "ack" => self.emit("auth", vec![Line::ack(3, 0, b"password", b"incorrect password")]),
                    "ack4" => self.emit("auth", vec![Line::ack(4, 0, b"password", b"permission denied")]),
                    "garbage" => self.emit("auth", vec![Line::bad(b"!bad\n")]),
                    "ack5" => self.emit("auth", vec![Line::ack(5, 0, b"", b"unknown command")]),
                    "partial" => {
                        // a reply that is cut before its end, then the server goes away
                        self.emit("auth", vec![Line::bad(b"O")]);
                        self.silent = true;
                    }
                    _ => {
                        // "eof": the server says nothing and goes away
                        self.silent = true;
                    }
                }
            }
            _ => {
                self.mode = Mode::Ready; // a command while idle: real MPD would close; World.tla flags C05
                match self.exec(&words, 0) {
                    Ok(mut ls) => {
                        ls.push(Line::ok());
                        self.emit("cmd", ls);
                    }
                    Err(e) => self.emit("cmd", e),
                }
            }
        }
    }
}

/// Minimal request-line splitter for the simulator (plain and quoted words). The harness only
/// sends simple words in session runs; TLC re-tokenizes every line with spec/Tokenizer.tla.
pub fn split_words(l: &[u8]) -> Vec<Vec<u8>> {
    let mut out = vec![];
    let mut i = 0;
    while i < l.len() {
        while i < l.len() && l[i] <= 0x20 {
            i += 1;
        }
        if i >= l.len() {
            break;
        }
        let mut w = vec![];
        if l[i] == b'"' {
            i += 1;
            while i < l.len() && l[i] != b'"' {
                if l[i] == b'\\' && i + 1 < l.len() {
                    i += 1;
                }
                w.push(l[i]);
                i += 1;
            }
            i += 1;
        } else {
            while i < l.len() && l[i] > 0x20 {
                w.push(l[i]);
                i += 1;
            }
        }
        out.push(w);
    }
    out
}

pub type Shared = Arc<Mutex<Sh>>;

/// The transport handed to the client. Dropping it is recorded.
pub struct MockIo(pub Shared);

impl Drop for MockIo {
    fn drop(&mut self) {
        let mut s = self.0.lock().unwrap();
        s.dropped = true;
        s.progress += 1;
        s.log.push(json!({"e": "io_dropped"}));
    }
}

impl AsyncRead for MockIo {
    fn poll_read(self: Pin<&mut Self>, cx: &mut Context<'_>, buf: &mut ReadBuf<'_>) -> Poll<io::Result<()>> {
        let mut s = self.0.lock().unwrap();
        if s.rerr {
            s.progress += 1;
            s.log.push(json!({"e": "read_err"}));
            // (the kind of a transport error is the transport's business: every kind is a failure that is not a clean close;
            //  Interrupted / WouldBlock are left out - retrying those would be legitimate)
            const KINDS: [io::ErrorKind; 6] = [io::ErrorKind::ConnectionReset, io::ErrorKind::ConnectionAborted, io::ErrorKind::BrokenPipe,
                                               io::ErrorKind::TimedOut, io::ErrorKind::Other, io::ErrorKind::NotConnected];
            let k = KINDS[((s.split_seed0 >> 3) % 6) as usize];
            return Poll::Ready(Err(io::Error::new(k, "injected read error")));
        }
        if !s.readable.is_empty() {
            let mut n = s.readable.len().min(buf.remaining());
            if s.max_read > 0 {
                n = n.min(s.max_read);
            }
            let d: Vec<u8> = s.readable.drain(..n).collect();
            buf.put_slice(&d);
            s.log.push(json!({"e": "read", "n": n}));
            s.progress += 1;
            return Poll::Ready(Ok(()));
        }
        if s.eof {
            s.progress += 1;
            s.log.push(json!({"e": "read_eof"}));
            return Poll::Ready(Ok(()));
        }
        s.waker = Some(cx.waker().clone());
        Poll::Pending
    }
}

impl AsyncWrite for MockIo {
    fn poll_write(self: Pin<&mut Self>, cx: &mut Context<'_>, b: &[u8]) -> Poll<io::Result<usize>> {
        let mut s = self.0.lock().unwrap();
        if s.wstall == Some(0) && !s.werr {
            s.wwaker = Some(cx.waker().clone());
            return Poll::Pending;
        }
        s.progress += 1;
        if s.werr {
            s.log.push(json!({"e": "write_err"}));
            const KINDS: [io::ErrorKind; 5] = [io::ErrorKind::BrokenPipe, io::ErrorKind::ConnectionReset, io::ErrorKind::ConnectionAborted,
                                               io::ErrorKind::Other, io::ErrorKind::TimedOut];
            let k = KINDS[((s.split_seed0 >> 7) % 5) as usize];
            return Poll::Ready(Err(io::Error::new(k, "injected write error")));
        }
        // a transport may accept fewer bytes than offered (short write)
        let b = if s.max_write > 0 && b.len() > s.max_write { &b[..s.max_write] } else { b };
        let b = match s.wstall {
            Some(budget) => {
                let n = b.len().min(budget);
                s.wstall = Some(budget - n);
                &b[..n]
            }
            None => b,
        };
        s.log.push(json!({"e": "write", "n": b.len()}));
        for &c in b {
            if c == b'\n' {
                let l = std::mem::take(&mut s.inline);
                s.line(l);
            } else {
                s.inline.push(c);
            }
        }
        Poll::Ready(Ok(b.len()))
    }
    fn poll_flush(self: Pin<&mut Self>, _: &mut Context<'_>) -> Poll<io::Result<()>> {
        Poll::Ready(Ok(()))
    }
    fn poll_shutdown(self: Pin<&mut Self>, _: &mut Context<'_>) -> Poll<io::Result<()>> {
        Poll::Ready(Ok(()))
    }
}
