//! Typed-response driver (C12 C14 C16, pairing part of C13): pushes reply bytes through the real parser,
//! converts the frame(s) with the real `Command::response` / `CommandList::responses`, reads every public
//! accessor of the value, and projects the value to JSON. No expectations here.

use crate::filt;
use crate::frame::{bytes_of, encode_frame, receive_bytes};
use mpd_client::commands::{self as cmds, Command, CommandList};
use mpd_client::filter::Filter;
use mpd_client::protocol::response::Frame;
use mpd_client::responses::{self as res, PlayState, Song, SongInQueue, TypedResponseError};
use mpd_client::tag::Tag;
use serde_json::{json, Value};
use std::io::Write;
use std::panic::{catch_unwind, AssertUnwindSafe};
use std::time::Duration;

fn d(x: Duration) -> Value {
    json!([x.as_secs().to_string().as_bytes(), x.subsec_nanos()])
}
fn od(x: Option<Duration>) -> Value {
    match x {
        None => json!([]),
        Some(x) => json!([d(x)]),
    }
}
fn n(x: u64) -> Value {
    json!(x.to_string().as_bytes())
}
fn os(x: &Option<String>) -> Value {
    match x {
        None => json!([]),
        Some(s) => json!([s.as_bytes()]),
    }
}
fn tagname(t: &Tag) -> Vec<u8> {
    use mpd_client::protocol::command::Argument;
    let mut b = bytes::BytesMut::new();
    t.render(&mut b);
    b.to_vec()
}

fn song_json(s: &Song, q: Option<&SongInQueue>) -> Value {
    // exercise every public accessor (C12: reading the value must not panic)
    let _ = (s.file_path(), s.artists().len(), s.album_artists().len(), s.album(), s.title());
    let (disc, track) = s.number();
    let mut tags: Vec<(Vec<u8>, Vec<Vec<u8>>)> = s.tags.iter().map(|(t, vs)| (tagname(t), vs.iter().map(|v| v.as_bytes().to_vec()).collect())).collect();
    tags.sort();
    #[cfg(feature = "chrono")]
    if let Some(lm) = &s.last_modified {
        let _ = lm.chrono_datetime();
    }
    json!({
        "url": s.url.as_bytes(), "dur": od(s.duration), "format": os(&s.format),
        "lm": match &s.last_modified { None => json!([]), Some(t) => json!([t.raw().as_bytes()]) },
        "tags": tags.into_iter().map(|(k, v)| json!([k, v])).collect::<Vec<_>>(),
        "number": [n(disc), n(track)],
        "inq": q.is_some(),
        "pos": q.map(|q| n(q.position.0 as u64)).unwrap_or(json!([])),
        "id": q.map(|q| n(q.id.0)).unwrap_or(json!([])),
        "prio": q.map(|q| q.priority as i64).unwrap_or(-1),
        "range": match q.and_then(|q| q.range) { None => json!([]), Some(r) => json!([[d(r.from), od(r.to)]]) },
    })
}

fn tag_of(p: &Value, i: usize) -> Tag {
    filt::tag_of(&p["tags"][i])
}
fn simple_filter() -> Filter {
    Filter::tag(Tag::Artist, "x")
}

type R = Result<Value, TypedResponseError>;

/// Convert `frame` with the response type of command `cmd` and project the value.
pub fn convert(cmd: &str, p: &Value, frame: Frame) -> Option<R> {
    let songs_q = |v: Vec<SongInQueue>| json!({"songs": v.iter().map(|q| song_json(&q.song, Some(q))).collect::<Vec<_>>()});
    let songs = |v: Vec<Song>| json!({"songs": v.iter().map(|s| song_json(s, None)).collect::<Vec<_>>()});
    Some(match cmd {
        "Queue" => cmds::Queue.response(frame).map(songs_q),
        // the request's own parameters must not matter for decoding: single song / id, ranges of every shape (also end < start)
        "QueueRange" => {
            let a = cmds::SongPosition(p["qfrom"].as_u64().unwrap_or(0) as usize);
            let b = cmds::SongPosition(p["qto"].as_u64().unwrap_or(0) as usize);
            let q = match p["qkind"].as_str().unwrap_or("song") {
                "id" => cmds::Queue::song(cmds::SongId(7)),
                "range" => cmds::Queue::range(a..b),
                "range_incl" => cmds::Queue::range(a..=b),
                "range_from" => cmds::Queue::range(a..),
                "range_to" => cmds::QueueRange::range(..b),
                "range_full" => cmds::QueueRange::range(..),
                _ => cmds::Queue::song(a),
            };
            q.response(frame).map(songs_q)
        }
        "CurrentSong" => cmds::CurrentSong.response(frame).map(|o| json!({"songs": o.iter().map(|q| song_json(&q.song, Some(q))).collect::<Vec<_>>()})),
        "Find" => cmds::Find::new(simple_filter()).response(frame).map(songs),
        "GetPlaylist" => cmds::GetPlaylist("pl").response(frame).map(songs),
        "ListAllIn" => cmds::ListAllIn::root().response(frame).map(songs),
        "Status" => cmds::Status.response(frame).map(|s| {
            let pair = |x: Option<(cmds::SongPosition, cmds::SongId)>| match x {
                None => json!([]),
                Some((p, i)) => json!([[n(p.0 as u64), n(i.0)]]),
            };
            json!({
                "volume": s.volume, "state": match s.state { PlayState::Stopped => "stop", PlayState::Playing => "play", PlayState::Paused => "pause" },
                "repeat": s.repeat, "random": s.random, "consume": s.consume,
                "single": match s.single { cmds::SingleMode::Disabled => "0", cmds::SingleMode::Enabled => "1", cmds::SingleMode::Oneshot => "oneshot" },
                "plver": n(s.playlist_version as u64), "pllen": n(s.playlist_length as u64), "cur": pair(s.current_song), "next": pair(s.next_song),
                "elapsed": od(s.elapsed), "duration": od(s.duration), "bitrate": match s.bitrate { None => json!([]), Some(b) => json!([n(b)]) },
                "xfade": d(s.crossfade), "update_job": match s.update_job { None => json!([]), Some(b) => json!([n(b)]) },
                "error": os(&s.error), "partition": os(&s.partition),
            })
        }),
        "Stats" => cmds::Stats.response(frame).map(|s| json!({"artists": n(s.artists), "albums": n(s.albums), "songs": n(s.songs), "uptime": d(s.uptime), "playtime": d(s.playtime),
            "db_playtime": d(s.db_playtime), "db_update": n(s.db_last_update)})),
        "ReplayGainStatus" => cmds::ReplayGainStatus.response(frame).map(|s| json!({"mode": match s.mode {
            cmds::ReplayGainMode::Off => "off", cmds::ReplayGainMode::Track => "track", cmds::ReplayGainMode::Album => "album", cmds::ReplayGainMode::Auto => "auto" }})),
        "Count" => cmds::Count::new(simple_filter()).response(frame).map(|c| json!({"songs": n(c.songs), "playtime": d(c.playtime)})),
        "CountGrouped" => cmds::CountGrouped::new(tag_of(p, 0)).response(frame).map(|v| json!({"groups": v.iter().map(|(g, c)| json!([g.as_bytes(), n(c.songs), d(c.playtime)])).collect::<Vec<_>>()})),
        "List" => cmds::List::new(tag_of(p, 0)).response(frame).map(|l| {
            let vals: Vec<Value> = l.values().map(|v| json!(v.as_bytes())).collect();
            let back: Vec<Value> = l.values().rev().map(|v| json!(v.as_bytes())).collect();
            let _ = (l.values().len(), l.values().size_hint(), l.values().count(), l.values().last(), l.values().nth(1), l.values().nth_back(1), (&l).into_iter().count());
            let grouped: Vec<Value> = l.grouped_values().map(|(v, g)| json!([v.as_bytes(), Vec::<Vec<u8>>::from_iter(g.iter().map(|x| x.as_bytes().to_vec()))])).collect();
            let raw: Vec<Value> = l.clone().into_raw_values().iter().map(|(t, v)| json!([tagname(t), v.as_bytes()])).collect();
            let owned: Vec<Value> = l.clone().into_iter().map(|v| json!(v.into_bytes())).collect();
            let _ = l.grouped_by().len();
            // every iterator adaptor the value iterators override (borrowed and owning): judged against the plain value sequence
            let ob = |x: Option<&str>| match x { None => json!([]), Some(s) => json!([s.as_bytes()]) };
            let oo = |x: Option<String>| match x { None => json!([]), Some(s) => json!([s.into_bytes()]) };
            let mut mixed = vec![];
            {
                let mut it = l.clone().into_iter();
                loop {
                    match it.next() { Some(v) => mixed.push(json!(v.into_bytes())), None => break }
                    match it.next_back() { Some(v) => mixed.push(json!(v.into_bytes())), None => break }
                }
            }
            let mut it2 = l.values();
            let _ = it2.next();
            let ad = json!({"len": l.values().len(), "count": l.values().count(), "last": ob(l.values().last()), "nth1": ob(l.values().nth(1)), "nthb1": ob(l.values().nth_back(1)),
                "o_len": l.clone().into_iter().len(), "o_count": l.clone().into_iter().count(), "o_last": oo(l.clone().into_iter().last()),
                "o_nth1": oo(l.clone().into_iter().nth(1)), "o_nthb1": oo(l.clone().into_iter().nth_back(1)),
                "o_back": l.clone().into_iter().rev().map(|v| json!(v.into_bytes())).collect::<Vec<_>>(), "mixed": mixed,
                "len_after_next": it2.len(), "ref_iter": (&l).into_iter().map(|v| json!(v.as_bytes())).collect::<Vec<_>>()});
            json!({"values": vals, "back": back, "owned": owned, "grouped": grouped, "raw": raw, "ad": ad})
        }),
        "ListGroup1" => cmds::List::new(tag_of(p, 0)).group_by([tag_of(p, 1)]).response(frame).map(|l| {
            let grouped: Vec<Value> = l.grouped_values().map(|(v, g)| json!([v.as_bytes(), Vec::<Vec<u8>>::from_iter(g.iter().map(|x| x.as_bytes().to_vec()))])).collect();
            let raw: Vec<Value> = l.clone().into_raw_values().iter().map(|(t, v)| json!([tagname(t), v.as_bytes()])).collect();
            let _ = l.grouped_by().iter().map(tagname).count();
            json!({"values": [], "back": [], "owned": [], "grouped": grouped, "raw": raw})
        }),
        "ListGroup2" => cmds::List::new(tag_of(p, 0)).group_by([tag_of(p, 1), tag_of(p, 2)]).response(frame).map(|l| {
            let grouped: Vec<Value> = l.grouped_values().map(|(v, g)| json!([v.as_bytes(), Vec::<Vec<u8>>::from_iter(g.iter().map(|x| x.as_bytes().to_vec()))])).collect();
            let raw: Vec<Value> = l.clone().into_raw_values().iter().map(|(t, v)| json!([tagname(t), v.as_bytes()])).collect();
            json!({"values": [], "back": [], "owned": [], "grouped": grouped, "raw": raw})
        }),
        "GetPlaylists" => cmds::GetPlaylists.response(frame).map(|v| json!({"playlists": v.iter().map(|p| json!([p.name.as_bytes(), p.last_modified.raw().as_bytes()])).collect::<Vec<_>>()})),
        "StickerGet" => cmds::StickerGet::new("u", p["sname"].as_str().unwrap_or("n")).response(frame).map(|s| json!({"value": s.value.as_bytes(), "into": String::from(s.clone()).as_bytes()})),
        "StickerList" => cmds::StickerList::new("u").response(frame).map(|s| {
            let mut v: Vec<(Vec<u8>, Vec<u8>)> = s.value.iter().map(|(k, v)| (k.as_bytes().to_vec(), v.as_bytes().to_vec())).collect();
            v.sort();
            json!({"map": v.into_iter().map(|(k, v)| json!([k, v])).collect::<Vec<_>>()})
        }),
        "StickerFind" => cmds::StickerFind::new("u", "n").response(frame).map(|s| {
            let mut v: Vec<(Vec<u8>, Vec<u8>)> = s.value.iter().map(|(k, v)| (k.as_bytes().to_vec(), v.as_bytes().to_vec())).collect();
            v.sort();
            json!({"map": v.into_iter().map(|(k, v)| json!([k, v])).collect::<Vec<_>>()})
        }),
        "ListChannels" => cmds::ListChannels.response(frame).map(|v| json!({"items": v.iter().map(|s| json!(s.as_bytes())).collect::<Vec<_>>()})),
        "ReadChannelMessages" => cmds::ReadChannelMessages.response(frame).map(|v| json!({"pairs": v.iter().map(|(c, m)| json!([c.as_bytes(), m.as_bytes()])).collect::<Vec<_>>()})),
        "GetEnabledTagTypes" => cmds::GetEnabledTagTypes.response(frame).map(|v| json!({"items": v.iter().map(|t| json!(tagname(t))).collect::<Vec<_>>()})),
        "Update" => cmds::Update::new().response(frame).map(|v| json!({"n": n(v)})),
        "Rescan" => cmds::Rescan::new().response(frame).map(|v| json!({"n": n(v)})),
        "Add" => cmds::Add::uri("u").response(frame).map(|v| json!({"n": n(v.0)})),
        "AlbumArt" => cmds::AlbumArt::new("u").response(frame).map(art_json),
        "AlbumArtEmbedded" => cmds::AlbumArtEmbedded::new("u").response(frame).map(art_json),
        "Ping" => cmds::Ping.response(frame).map(|_| json!({"unit": true})),
        "SetVolume" => cmds::SetVolume(1).response(frame).map(|_| json!({"unit": true})),
        "Play" => cmds::Play::current().response(frame).map(|_| json!({"unit": true})),
        "TagTypes" => cmds::TagTypes::enable_all().response(frame).map(|_| json!({"unit": true})),
        "StickerSet" => cmds::StickerSet::new("a", "b", "c").response(frame).map(|_| json!({"unit": true})),
        _ => return None,
    })
}

fn art_json(a: Option<res::AlbumArt>) -> Value {
    match a {
        None => json!({"some": false, "size": [], "mime": [], "data": []}),
        Some(a) => json!({"some": true, "size": n(a.size as u64), "mime": os(&a.mime), "data": a.data.to_vec()}),
    }
}

fn outcome(r: std::thread::Result<Option<R>>) -> (String, Value) {
    match r {
        Err(_) => ("panic".into(), json!({})),
        Ok(None) => ("unknown_cmd".into(), json!({})),
        Ok(Some(Ok(v))) => ("ok".into(), v),
        Ok(Some(Err(e))) => {
            // Display / Debug / source of the error type must be total, too
            let _ = (e.to_string(), format!("{e:?}"), std::error::Error::source(&e).map(|s| s.to_string()));
            ("err".into(), json!({}))
        }
    }
}

pub fn frame_from(c: &Value) -> Option<Frame> {
    let mut body = encode_frame(c);
    body.extend_from_slice(b"OK\n");
    receive_bytes(body).and_then(|r| r.into_single_frame().ok())
}

pub fn run_case(c: &Value) -> Value {
    let cmd = c["cmd"].as_str().unwrap_or("");
    match c["kind"].as_str().unwrap_or("single") {
        "single" => {
            let Some(frame) = frame_from(&c["frame"]) else {
                // the protocol layer does not accept these lines: nothing reaches the typed layer
                return json!({"e": "typed", "id": c["id"], "cmd": cmd, "p": c["p"], "fields": c["frame"]["fields"], "bin": c["frame"]["bin"], "out": "unparsed", "val": {}});
            };
            let (out, val) = outcome(catch_unwind(AssertUnwindSafe(|| convert(cmd, &c["p"], frame))));
            json!({"e": "typed", "id": c["id"], "cmd": cmd, "p": c["p"], "fields": c["frame"]["fields"], "bin": c["frame"]["bin"], "out": out, "val": val})
        }
        // typed command lists: vector of one command type, or tuples of arity 1..8, with any number of frames
        _ => {
            // the reply as the server sends it for a list (frames separated by list_OK; a single command's reply is bare),
            // decoded by the real protocol layer in ONE receive: what reaches the typed layer is what a client would get
            let specs = c["frames"].as_array().unwrap();
            let mut body = vec![];
            for f in specs {
                body.extend_from_slice(&encode_frame(f));
                if specs.len() != 1 {
                    body.extend_from_slice(b"list_OK\n");
                }
            }
            body.extend_from_slice(b"OK\n");
            let frames: Vec<Frame> = match if specs.is_empty() { None } else { receive_bytes(body) } {
                Some(r) if r.is_success() => r.into_iter().filter_map(|f| f.ok()).collect(),
                _ => vec![],
            };
            // (lines the protocol layer does not accept: nothing reaches the typed layer; reported as a count mismatch)
            let nframes = if frames.is_empty() && !specs.is_empty() && specs.len() != 1 { usize::MAX >> 8 } else { frames.len() };
            let arity = c["arity"].as_u64().unwrap_or(1) as usize;
            let shape = c["shape"].as_str().unwrap_or("vec");
            let r = catch_unwind(AssertUnwindSafe(|| list_convert(shape, arity, frames)));
            let (out, val) = match r {
                Err(_) => ("panic".to_string(), json!({})),
                Ok(Ok(v)) => ("ok".to_string(), v),
                Ok(Err(e)) => {
                    let _ = (e.to_string(), format!("{e:?}"));
                    ("err".to_string(), json!({}))
                }
            };
            json!({"e": "typed_list", "id": c["id"], "shape": shape, "arity": arity, "nframes": nframes, "frames": c["frames"], "out": out, "val": val})
        }
    }
}

/// Lists of commands with distinguishable replies: position i holds command kind i % 4
/// (0: sticker get -> value, 1: update -> job id, 2: add -> song id, 3: channels -> list).
fn list_convert(shape: &str, arity: usize, frames: Vec<Frame>) -> Result<Value, TypedResponseError> {
    let sg = || cmds::StickerGet::new("u", "n");
    let up = || cmds::Update::new();
    let ad = || cmds::Add::uri("u");
    let ch = || cmds::ListChannels;
    let v_sg = |s: res::StickerGet| json!(["sticker", s.value.as_bytes()]);
    let v_up = |x: u64| json!(["update", n(x)]);
    let v_ad = |x: cmds::SongId| json!(["add", n(x.0)]);
    let v_ch = |x: Vec<String>| json!(["channels", x.iter().map(|s| s.as_bytes().to_vec()).collect::<Vec<_>>()]);
    let aa = || cmds::AlbumArt::new("u");
    let ae = || cmds::AlbumArtEmbedded::new("u");
    let v_art = |a: Option<res::AlbumArt>| json!(["art", art_json(a)]);
    if shape == "arts" {
        // binary-bearing commands inside a list: sticker get, art, art, embedded art, update, art, sticker get, embedded art
        return Ok(match arity {
            2 => { let (a, b) = (sg(), aa()).responses(frames)?; json!({"items": [v_sg(a), v_art(b)]}) }
            3 => { let (a, b, c) = (sg(), aa(), aa()).responses(frames)?; json!({"items": [v_sg(a), v_art(b), v_art(c)]}) }
            4 => { let (a, b, c, d) = (sg(), aa(), aa(), ae()).responses(frames)?; json!({"items": [v_sg(a), v_art(b), v_art(c), v_art(d)]}) }
            5 => { let (a, b, c, d, e) = (sg(), aa(), aa(), ae(), up()).responses(frames)?; json!({"items": [v_sg(a), v_art(b), v_art(c), v_art(d), v_up(e)]}) }
            6 => { let (a, b, c, d, e, f) = (sg(), aa(), aa(), ae(), up(), aa()).responses(frames)?; json!({"items": [v_sg(a), v_art(b), v_art(c), v_art(d), v_up(e), v_art(f)]}) }
            7 => { let (a, b, c, d, e, f, g) = (sg(), aa(), aa(), ae(), up(), aa(), sg()).responses(frames)?;
                   json!({"items": [v_sg(a), v_art(b), v_art(c), v_art(d), v_up(e), v_art(f), v_sg(g)]}) }
            _ => { let (a, b, c, d, e, f, g, h) = (sg(), aa(), aa(), ae(), up(), aa(), sg(), ae()).responses(frames)?;
                   json!({"items": [v_sg(a), v_art(b), v_art(c), v_art(d), v_up(e), v_art(f), v_sg(g), v_art(h)]}) }
        });
    }
    if shape == "vec" {
        let cmds_v: Vec<cmds::StickerGet<'_>> = (0..arity).map(|_| sg()).collect();
        let wire_some = cmds_v.command_list().is_some();
        let out = cmds_v.responses(frames)?;
        return Ok(json!({"items": out.into_iter().map(v_sg).collect::<Vec<_>>(), "wire_some": wire_some}));
    }
    Ok(match arity {
        1 => { let (a,) = (sg(),).responses(frames)?; json!({"items": [v_sg(a)]}) }
        2 => { let (a, b) = (sg(), up()).responses(frames)?; json!({"items": [v_sg(a), v_up(b)]}) }
        3 => { let (a, b, c) = (sg(), up(), ad()).responses(frames)?; json!({"items": [v_sg(a), v_up(b), v_ad(c)]}) }
        4 => { let (a, b, c, d) = (sg(), up(), ad(), ch()).responses(frames)?; json!({"items": [v_sg(a), v_up(b), v_ad(c), v_ch(d)]}) }
        5 => { let (a, b, c, d, e) = (sg(), up(), ad(), ch(), sg()).responses(frames)?; json!({"items": [v_sg(a), v_up(b), v_ad(c), v_ch(d), v_sg(e)]}) }
        6 => { let (a, b, c, d, e, f) = (sg(), up(), ad(), ch(), sg(), up()).responses(frames)?; json!({"items": [v_sg(a), v_up(b), v_ad(c), v_ch(d), v_sg(e), v_up(f)]}) }
        7 => { let (a, b, c, d, e, f, g) = (sg(), up(), ad(), ch(), sg(), up(), ad()).responses(frames)?; json!({"items": [v_sg(a), v_up(b), v_ad(c), v_ch(d), v_sg(e), v_up(f), v_ad(g)]}) }
        _ => { let (a, b, c, d, e, f, g, h) = (sg(), up(), ad(), ch(), sg(), up(), ad(), ch()).responses(frames)?;
               json!({"items": [v_sg(a), v_up(b), v_ad(c), v_ch(d), v_sg(e), v_up(f), v_ad(g), v_ch(h)]}) }
    })
}

pub fn main(args: &[String]) -> i32 {
    let input = std::fs::read_to_string(&args[0]).expect("case file");
    let out = std::fs::File::create(&args[1]).expect("out file");
    let mut out = std::io::BufWriter::new(out);
    let mut cnt = 0;
    for l in input.lines() {
        if l.trim().is_empty() {
            continue;
        }
        let c: Value = serde_json::from_str(l).expect("case json");
        let r = catch_unwind(AssertUnwindSafe(|| run_case(&c)));
        let v = r.unwrap_or_else(|_| json!({"e": "typed", "id": c["id"], "cmd": c["cmd"], "p": c["p"], "fields": [], "bin": [], "out": "panic", "val": {}}));
        writeln!(out, "{}", v).unwrap();
        cnt += 1;
    }
    out.flush().unwrap();
    eprintln!("typed: {cnt} cases");
    let _ = bytes_of;
    0
}
