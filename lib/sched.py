"""Seeded random environment schedules for `mpdv session` (format: DESIGN.md 4.1).

A schedule is only the ENVIRONMENT's side of a session (callers, server-side changes, delivery of
bytes, timer, faults); what the client does with it is recorded by the harness and judged by TLC.
"""
import json
import random

SUBS = ["player", "mixer", "playlist", "zzfuture", "options", "stored_playlist", "Player", "MIXER", "custom_Thing"]   # names are reported verbatim, whatever their letter case


def rand_cmds(rng, maxn):
    n = rng.randint(1, maxn)
    out = []
    for _ in range(n):
        c = {}
        if rng.random() < 0.2:
            c["fail"] = True
        if rng.random() < 0.3:
            c["pad"] = rng.randint(1, 4)
        out.append(c)
    return out


def rand_step(rng, ncallers, allow_drop=True):
    x = rng.random()
    if x < 0.27:
        c = rng.randrange(ncallers)
        y = rng.random()
        if y < 0.12:
            # typed command list through Client::command_list (positions: sticker get, update, addid, channels, sticker get, update)
            if rng.random() < 0.7:
                return {"op": "issue", "c": c, "kind": "tlist", "cmds": [{} for _ in range(rng.randint(1, 6))]}
            return {"op": "issue", "c": c, "kind": "tvec", "cmds": [{} for _ in range(rng.randint(1, 5))]}
        if y < 0.4:
            return {"op": "issue", "c": c, "kind": "list", "cmds": rand_cmds(rng, 4)}
        return {"op": "issue", "c": c, "kind": "raw", "cmds": rand_cmds(rng, 1)}
    if x < 0.62:
        y = rng.random()
        if y < 0.3:
            return {"op": "deliver"}
        if y < 0.75:
            return {"op": "deliver", "units": rng.randint(1, 5)}
        return {"op": "deliver", "bytes": rng.randint(1, 12)}
    if x < 0.77:
        k = rng.choice([1, 1, 2, 2, 3])
        return {"op": "change", "subs": rng.sample(SUBS, k), "extra": rng.choice([0, 0, 0, 1, 2])}   # (extra: other fields in the idle reply)
    if x < 0.90:
        return {"op": "timeout"}
    if x < 0.96:
        return {"op": "cancel", "c": rng.randrange(ncallers)}
    if allow_drop:
        if rng.random() < 0.35:
            return {"op": "drop_events"}      # the ConnectionEvents receiver may be dropped while the client stays in use
        return {"op": "drop", "c": rng.randrange(ncallers + 1)}
    return {"op": "timeout"}


def rand_batches(rng, ncallers, nsteps, allow_drop=True):
    batches = []
    i = 0
    stalled = False
    while i < nsteps:
        bs = 1 if rng.random() < 0.65 else rng.randint(2, 3)
        b = [rand_step(rng, ncallers, allow_drop) for _ in range(bs)]
        # write backpressure: the transport takes a few more bytes and then stalls until resumed (timers may expire meanwhile)
        if not stalled and rng.random() < 0.06:
            b.insert(0, {"op": "wstall", "n": rng.choice([0, 0, 1, 3, 5, 9, 14])})
            stalled = True
        elif stalled and rng.random() < 0.35:
            b.append({"op": "wresume"})
            stalled = False
        batches.append(b)
        i += bs
    if stalled:
        batches.append([{"op": "wresume"}])
    return batches


def base(rng, run):
    nc = rng.choice([1, 2, 2, 3])
    cfg = {"callers": nc, "split_seed": rng.getrandbits(48) | 1}
    if rng.random() < 0.15:
        cfg["max_read"] = rng.choice([1, 2, 3, 7])
    if rng.random() < 0.15:
        cfg["max_write"] = rng.choice([1, 3, 8, 20])
    batches = rand_batches(rng, nc, rng.randint(6, 22), allow_drop=rng.random() < 0.3)
    if rng.random() < 0.12:
        # the user keeps the client and drops the ConnectionEvents receiver early: everything else must go on as before
        batches.insert(rng.randint(0, 2), [{"op": "drop_events"}])
    return {"run": run, "cfg": cfg, "batches": batches}


def faults(rng, run):
    if rng.random() < 0.08:
        # the stream ends on a line boundary inside the reply to the FIRST request of an album-art load
        s = art(rng, run)
        s["cfg"].pop("max_read", None)
        s["batches"] = [[{"op": "issue", "c": 0, "kind": "art"}], [{"op": "deliver"}], [{"op": "deliver", "units": 2 * rng.randint(1, 3)}, {"op": "fault", "kind": "eof"}],
                        [{"op": "deliver"}], [{"op": "timeout"}]]
        return s
    if rng.random() < 0.2:
        # the stream ends on a LINE boundary inside the reply to a command list (after j complete lines, among them the
        # list_OK separators): a whole number of lines was received, yet the response is not complete
        nc = rng.choice([1, 2])
        cfg = {"callers": nc, "split_seed": rng.getrandbits(48) | 1}
        pre = rand_batches(rng, nc, rng.randint(0, 4), allow_drop=False)
        pre = [b for b in pre if not any(st["op"] in ("wstall", "wresume", "cancel") for st in b)]
        lst = {"op": "issue", "c": 0, "kind": "list", "cmds": [{"fail": False, "pad": rng.choice([0, 0, 1, 2])} for _ in range(rng.randint(2, 4))]}
        tail = [[{"op": "deliver"}], [{"op": "timeout"}], [lst], [{"op": "deliver"}], [{"op": "deliver"}],
                [{"op": "deliver", "units": 2 * rng.randint(1, 7)}, {"op": "fault", "kind": "eof"}]]
        return {"run": run, "cfg": cfg, "batches": pre + tail + rand_batches(rng, nc, rng.randint(0, 3), allow_drop=False)}
    if rng.random() < 0.1:
        # a partial FIRST line of a notification is read, a request then cancels that receive (noidle is written), and the stream ends:
        # the buffered partial line makes this an unclean end, whoever read it
        nc = rng.choice([1, 2])
        cfg = {"callers": nc, "split_seed": rng.getrandbits(48) | 1}
        pre = [b for b in rand_batches(rng, nc, rng.randint(0, 3), allow_drop=False) if not any(st["op"] in ("wstall", "wresume", "cancel") for st in b)]
        tail = [[{"op": "deliver"}], [{"op": "timeout"}], [{"op": "change", "subs": rng.sample(SUBS, rng.choice([1, 2]))}], [{"op": "deliver", "bytes": rng.randint(1, 8)}],
                [{"op": "issue", "c": 0, "kind": "raw", "cmds": [{}]}], [{"op": "fault", "kind": "eof"}], [{"op": "deliver"}]]
        return {"run": run, "cfg": cfg, "batches": pre + tail}
    s = base(rng, run)
    kind = rng.choice(["eof", "eof", "eof", "rerr", "werr", "garbage", "garbage", "idleack", "idleack"])
    pos = rng.randint(0, len(s["batches"]))
    fb = [{"op": "fault", "kind": kind}]
    if rng.random() < 0.4:
        # cut at an arbitrary byte position: deliver a few bytes, then close, in one batch
        fb.insert(0, {"op": "deliver", "bytes": rng.randint(1, 20)})
    if rng.random() < 0.3:
        fb.append(rand_step(rng, s["cfg"]["callers"]))
    s["batches"].insert(pos, fb)
    return s


GREETINGS_OK = [b"OK MPD 0.23.5\n", b"OK MPD 0.21.11\n", b"OK MPD x\n", b"OK MPD 0.24 beta \xc3\xa9\n", b"OK MPD  \n", b"OK MPD 0.23.5\r\n",
                b"OK MPD 0.24~\xce\xb21\n", b"OK MPD \xf0\x9f\x8e\xb5\n"]
GREETINGS_BAD = [b"foobar\n", b"OK MPD \n", b"OK MPD 0.2\xff3\n", b"ok mpd 0.23.5\n", b"OK  MPD 0.23.5\n", b"\n", b"ACK [5@0] {} x\n", b"OK\n", b"OK MPD 0.23\xc3\n"]
GREETINGS_CUT = [b"OK MPD 0.23.5", b"OK MP", b"O", b"", b"foo", b"OK MPD \xc3"]


def handshake(rng, run):
    nc = rng.choice([1, 2])
    cfg = {"callers": nc, "split_seed": rng.getrandbits(48) | 1}
    pre = []
    x = rng.random()
    if x < 0.45:
        g = rng.choice(GREETINGS_OK)
    elif x < 0.75:
        g = rng.choice(GREETINGS_BAD)
    else:
        g = rng.choice(GREETINGS_CUT)
    cfg["greeting"] = list(g)
    # segmentation of the greeting
    slow = rng.random() < 0.3      # a slow peer: an hour passes between the segments / before the verdict (the outcome must not depend on time)
    if rng.random() < 0.6 and len(g) > 1:
        k = rng.randint(1, 3)
        for _ in range(k):
            pre.append([{"op": "deliver", "bytes": rng.randint(1, max(1, len(g) - 1))}])
            if slow:
                pre.append([{"op": "timeout"}])
    if slow and rng.random() < 0.5:
        pre.append([{"op": "timeout"}])
    pre.append([{"op": "deliver"}])
    if not g.endswith(b"\n"):
        pre.append([{"op": "fault", "kind": "eof"}])
    if rng.random() < 0.6:
        pw = rng.choice([b"secret", b"pass word", b"p(q)", b"x", b"\xc3\xa9t\xc3\xa9", b"", b"", b" ", b"tab\there"])   # (an empty password is still one argument)
        cfg["password"] = list(pw)
        cfg["connect"] = rng.choice(["password", "password_opt"])
        cfg["auth"] = rng.choice(["ok", "ok", "ok", "ack", "ack4", "ack5", "garbage", "eof", "partial"])
        if rng.random() < 0.3:
            cfg["srv_password"] = list(rng.choice([pw, b"other"]))
        # verdict delivery
        if slow:
            pre.append([{"op": "timeout"}])
        if rng.random() < 0.5:
            pre.append([{"op": "deliver", "bytes": rng.randint(1, 4)}])
        pre.append([{"op": "deliver"}])
        if cfg["auth"] in ("eof", "partial"):
            pre.append([{"op": "fault", "kind": "eof"}])
    else:
        cfg["connect"] = rng.choice(["plain", "password_opt"])
    pre.append([{"op": "deliver"}])
    if rng.random() < 0.2:
        cfg["max_write"] = rng.choice([1, 3, 8])      # a transport that takes a few bytes per write: the password line must still go out completely
        pre += [[{"op": "deliver"}], [{"op": "deliver"}]]
    if rng.random() < 0.12:
        # the transport fails DURING the handshake (before the greeting, before / after the password line, before the first idle): the
        # code paths "failed to send password" / "failed to send initial idle command" - connect fails or the failure is surfaced as the closing event
        pre.insert(rng.randint(0, len(pre)), [{"op": "fault", "kind": rng.choice(["werr", "werr", "rerr"])}])
    return {"run": run, "cfg": cfg, "pre": pre, "batches": rand_batches(rng, nc, rng.randint(2, 8), allow_drop=False)}


def art(rng, run):
    nc = rng.choice([1, 2])
    limit = rng.choice([1, 2, 3, 4, 7, 64, 4096, 8192])
    big = rng.random() < 0.06
    if big:
        # a server whose binary limit was raised far above 64 KiB (as the album_art documentation recommends for speed) and a picture larger than that
        limit = rng.choice([70000, 131072, 300000])
    sizes = [-1, 0, 1, max(1, limit - 1), limit, limit + 1, 3 * limit + 1, 2 * limit]
    if big:
        sizes = [limit - 1, limit, limit + 1, 2 * limit + 5, 66000]
    elif limit >= 64:
        sizes += [4095, 4096, 4097, 20000]
    else:
        sizes += [rng.randint(0, 40)]
    pic = {"embedded": rng.choice(sizes), "file": rng.choice(sizes), "limit": limit,
           "mime": list(rng.choice([b"image/jpeg", b"image/png", b"x y"])) if rng.random() < 0.6 else None,
           "embedded_ack": rng.choice([0, 0, 0, 0, 5, 5, 50, 2, 4]), "file_ack": rng.choice([0, 0, 0, 0, 50, 5, 2]), "vary": rng.random() < 0.5, "ackp": rng.random() < 0.5, "tfirst": rng.random() < 0.4}
    cfg = {"callers": nc, "split_seed": rng.getrandbits(48) | 1, "pic": pic}
    # a second picture (URIs ending in _alt.flac), small, differing from the first in which source has data: several album art
    # loads on ONE connection, in sequence and from different callers, must each be answered from their own URI's picture
    multi = rng.random() < 0.5
    if multi:
        small = [-1, -1, 0, 1, limit, limit + 1, 2 * limit + 1] if limit < 64 else [-1, -1, 0, 1, 100, 4097]
        cfg["pic2"] = {"embedded": rng.choice(small), "file": rng.choice(small), "limit": limit,
                       "mime": list(rng.choice([b"image/gif", b"image/png"])) if rng.random() < 0.6 else None,
                       "embedded_ack": rng.choice([0, 0, 0, 5, 50]), "file_ack": rng.choice([0, 0, 0, 50]), "vary": pic["vary"], "ackp": rng.random() < 0.5, "tfirst": rng.random() < 0.4}
    if rng.random() < 0.2:
        cfg["max_read"] = rng.choice([1, 5, 100, 4096]) if not big else rng.choice([4096, 65536, 1000])
    batches = []
    n = rng.randint(4, 14)
    art_at = rng.randint(0, 2)
    first_alt = multi and rng.random() < 0.5
    if rng.random() < 0.15:
        batches.append([{"op": "drop_events"}, {"op": "change", "subs": rng.sample(SUBS, 1)}])
    for i in range(n):
        b = []
        if i == art_at:
            b.append({"op": "issue", "c": 0, "kind": "art", "alt": first_alt})
        for _ in range(rng.choice([1, 1, 2])):
            x = rng.random()
            if x < 0.55:
                b.append({"op": "deliver"} if rng.random() < 0.6 else {"op": "deliver", "units": rng.randint(1, 4)})
            elif x < 0.7:
                b.append({"op": "change", "subs": rng.sample(SUBS, rng.choice([1, 2]))})
            elif x < 0.85 and nc > 1:
                b.append({"op": "issue", "c": 1, "kind": "raw", "cmds": rand_cmds(rng, 1)})
            else:
                b.append({"op": "timeout"})
        batches.append(b)
    # enough deliveries for many chunks
    for _ in range(min(60, (max(pic["embedded"], pic["file"], 0) // limit) + 4)):
        batches.append([{"op": "deliver"}])
    if multi:
        # further loads after the first one is (most likely) complete: the other URI, then the first kind again
        for alt, c in ((not first_alt, rng.randrange(nc)), (first_alt, 0), (not first_alt, rng.randrange(nc)))[: rng.choice([1, 2, 3])]:
            batches.append([{"op": "issue", "c": c, "kind": "art", "alt": alt}])
            p = cfg["pic2"] if alt else pic
            for _ in range(min(60, (max(p["embedded"], p["file"], 0) // limit) + 4)):
                batches.append([{"op": "deliver"}] if rng.random() < 0.8 else [{"op": "deliver"}, {"op": "change", "subs": rng.sample(SUBS, 1)}])
    return {"run": run, "cfg": cfg, "batches": batches}


def tlists(rng, run):
    """Mostly typed command lists (tuples of arity 1..6, vectors) through Client::command_list, with concurrent raw requests and notifications."""
    nc = rng.choice([1, 2])
    cfg = {"callers": nc, "split_seed": rng.getrandbits(48) | 1}
    if rng.random() < 0.2:
        cfg["max_write"] = rng.choice([3, 8, 20])
    batches = []
    for _ in range(rng.randint(4, 12)):
        b = []
        for _ in range(rng.choice([1, 1, 2])):
            x = rng.random()
            if x < 0.35:
                if rng.random() < 0.7:
                    b.append({"op": "issue", "c": rng.randrange(nc), "kind": "tlist", "cmds": [{} for _ in range(rng.randint(1, 6))]})
                else:
                    b.append({"op": "issue", "c": rng.randrange(nc), "kind": "tvec", "cmds": [{} for _ in range(rng.randint(1, 5))]})
            elif x < 0.45:
                b.append({"op": "issue", "c": rng.randrange(nc), "kind": "list", "cmds": rand_cmds(rng, 3)})
            elif x < 0.8:
                b.append({"op": "deliver"} if rng.random() < 0.5 else {"op": "deliver", "units": rng.randint(1, 6)})
            elif x < 0.9:
                b.append({"op": "change", "subs": rng.sample(SUBS, rng.choice([1, 2]))})
            else:
                b.append({"op": "timeout"})
        batches.append(b)
    return {"run": run, "cfg": cfg, "batches": batches}


def long(rng, run):
    """A long-lived connection: > 100 request / reply exchanges and notifications, so that the byte counters of the connection
    pass the receive buffer size (4096) and its multiples with replies and idle notifications starting right before them."""
    cfg = {"callers": 1, "split_seed": rng.getrandbits(48) | 1}
    batches = []
    for i in range(rng.randint(90, 160)):
        x = rng.random()
        if x < 0.62:
            batches.append([{"op": "issue", "c": 0, "kind": "raw", "cmds": [{"pad": rng.choice([0, 0, 1, 2, 3, 4, 6, 9])}]}])
            batches.append([{"op": "deliver"}])
            batches.append([{"op": "deliver"}])
        elif x < 0.72:
            batches.append([{"op": "issue", "c": 0, "kind": "list", "cmds": rand_cmds(rng, 3)}])
            batches.append([{"op": "deliver"}])
            batches.append([{"op": "deliver"}])
        elif x < 0.9:
            batches.append([{"op": "timeout"}])
            batches.append([{"op": "change", "subs": rng.sample(SUBS, rng.choice([1, 1, 2]))}])
            batches.append([{"op": "deliver"}])
        else:
            batches.append([{"op": "timeout"}])
    return {"run": run, "cfg": cfg, "batches": batches}


def burst(rng, run):
    """Many requests at once: 4 - 8 clones issue 35 - 70 requests in ONE step (internal queues fill up), then everything is delivered."""
    nc = rng.choice([4, 6, 8])
    cfg = {"callers": nc, "split_seed": rng.getrandbits(48) | 1}
    batches = rand_batches(rng, nc, rng.randint(0, 4), allow_drop=False)
    batches = [b for b in batches if not any(st["op"] in ("wstall", "wresume") for st in b)]
    n = rng.randint(35, 70)
    batches.append([{"op": "issue", "c": rng.randrange(nc), "kind": "raw", "cmds": rand_cmds(rng, 1)} if rng.random() < 0.8 else
                    {"op": "issue", "c": rng.randrange(nc), "kind": "list", "cmds": rand_cmds(rng, 3)} for _ in range(n)])
    for _ in range(2 * n + 8):
        batches.append([{"op": "deliver"}] if rng.random() < 0.9 else [{"op": "change", "subs": rng.sample(SUBS, 1)}, {"op": "deliver"}])
    return {"run": run, "cfg": cfg, "batches": batches}


def lazy(rng, run):
    """The application keeps the ConnectionEvents receiver but does not poll it while the server reports 70 - 130 changes (a backlog
    builds up), now and then a request; then it reads everything. Some runs end with a fault while the backlog is still unread."""
    cfg = {"callers": 1, "split_seed": rng.getrandbits(48) | 1, "lazy_events": True}
    batches = []
    total = 0
    want = rng.randint(70, 130)
    while total < want:
        subs = rng.sample(SUBS, rng.choice([1, 1, 2, 3]))
        total += len(subs)
        batches.append([{"op": "change", "subs": subs}])
        batches.append([{"op": "deliver"}])
        if rng.random() < 0.08:
            batches.append([{"op": "issue", "c": 0, "kind": "raw", "cmds": [{}]}])
            batches.append([{"op": "deliver"}])
            batches.append([{"op": "deliver"}])
        if rng.random() < 0.1:
            batches.append([{"op": "timeout"}])
    if rng.random() < 0.5:
        batches.append([{"op": "fault", "kind": rng.choice(["garbage", "rerr", "eof"])}] if rng.random() < 0.7
                       else [{"op": "change", "subs": ["player"]}, {"op": "deliver", "bytes": 5}, {"op": "fault", "kind": "eof"}])
        batches.append([{"op": "deliver"}])
    return {"run": run, "cfg": cfg, "batches": batches}


def fatlist(rng, run):
    """One command list whose lines add up to more than 2 MiB (MPD's default max_command_list_size is 2048 KiB, raised by many setups): it is
    still ONE request and must go out as one block; some commands around it."""
    cfg = {"callers": 1, "split_seed": rng.getrandbits(48) | 1}
    n = rng.choice([36, 40])
    fat = rng.choice([60000, 66000])
    lst = {"op": "issue", "c": 0, "kind": "list", "cmds": [{"fail": False, "pad": 0, "fat": fat} for _ in range(n)]}
    batches = [[{"op": "issue", "c": 0, "kind": "raw", "cmds": [{}]}], [{"op": "deliver"}], [{"op": "deliver"}], [lst], [{"op": "deliver"}], [{"op": "deliver"}], [{"op": "deliver"}],
               [{"op": "issue", "c": 0, "kind": "raw", "cmds": [{"fat": 300000}]}], [{"op": "deliver"}], [{"op": "deliver"}], [{"op": "timeout"}]]
    return {"run": run, "cfg": cfg, "batches": batches}


PROFILES = {"fatlist": fatlist, "burst": burst, "lazy": lazy, "base": base, "faults": faults, "handshake": handshake, "art": art, "tlists": tlists, "long": long}


def generate(profile, n, seed, start=0):
    rng = random.Random(f"{profile}:{seed}")
    f = PROFILES[profile]
    return [f(rng, start + i) for i in range(n)]


if __name__ == "__main__":
    import sys
    prof, n, seed, path = sys.argv[1], int(sys.argv[2]), int(sys.argv[3]), sys.argv[4]
    with open(path, "w") as fh:
        for s in generate(prof, n, seed):
            fh.write(json.dumps(s) + "\n")
