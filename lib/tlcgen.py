"""Turn environment schedules printed by the Loop model (spec/LoopGen.tla) into `mpdv session` runs."""
import json
import re

NAMES = {112: "player", 109: "mixer"}


def parse_sched_lines(text):
    """Yield (level, schedule) for every <<"SCHED", level, "json">> tuple in TLC output."""
    for m in re.finditer(r'<<\s*"SCHED",\s*(\d+),\s*"((?:[^"\\]|\\.)*)"\s*>>', text, re.S):
        raw = m.group(2)
        raw = re.sub(r"\s*\n\s*", "", raw)
        yield int(m.group(1)), json.loads(json.loads('"' + raw + '"'))


def maximal(scheds):
    """Keep each distinct schedule once, and only those that are not a proper prefix of another one."""
    keys = sorted({json.dumps(s)[:-1] for _, s in scheds if s})
    out = []
    for i, k in enumerate(keys):
        if i + 1 < len(keys) and keys[i + 1].startswith(k + ","):
            continue
        out.append(json.loads(k + "]"))
    return out


def to_run(sched, run_id, ncallers, split_seed):
    batches = [[]]
    for st in sched:
        op = st["op"]
        if op == "settle":
            if batches[-1]:
                batches.append([])
            continue
        if op == "issue":
            cmds = [{"fail": c["fail"], "pad": c["pad"]} for c in st["s"]]
            batches[-1].append({"op": "issue", "c": st["c"], "kind": "raw" if len(cmds) == 1 else "list", "cmds": cmds})
        elif op == "cancel":
            batches[-1].append({"op": "cancel", "c": st["c"]})
        elif op == "drop":
            batches[-1].append({"op": "drop", "c": st["c"]})
        elif op == "deliver":
            batches[-1].append({"op": "deliver", "units": st["a"]})
        elif op == "change":
            batches[-1].append({"op": "change", "subs": [NAMES.get(x[0], "zz%d" % x[0]) for x in st["s"]]})
        elif op == "fault":
            batches[-1].append({"op": "fault", "kind": st["s"][0]})
        elif op == "timeout":
            batches[-1].append({"op": "timeout"})
    if not batches[-1]:
        batches.pop()
    return {"run": run_id, "cfg": {"callers": ncallers, "observer": False, "split_seed": split_seed}, "batches": batches}
