"""Parameter pools and case enumeration for the predefined-command check (C15)."""
import importlib.util
import itertools
import random

import os
_spec = importlib.util.spec_from_file_location("gen_commands_tla", os.path.join(os.path.dirname(os.path.dirname(os.path.abspath(__file__))), "bin", "gen_commands_tla.py"))
_mod = importlib.util.module_from_spec(_spec)
_spec.loader.exec_module(_mod)
TABLE = _mod.TABLE

MAX = 2 ** 64 - 1
NUMS = [0, 1, 2, 9, 10, 100, 4294967295, 4294967296, 2 ** 63, MAX - 1, MAX]
VOLS = [0, 1, 50, 99, 100, 101, 200, 255]
BVALS = [0, 1, 2, 5, MAX - 1, MAX]
KINDS = ["inc", "exc", "unb"]
DURS = [(0, 0), (0, 400000), (0, 499999), (0, 500000), (0, 500001), (0, 1000000), (0, 999499999), (0, 999500000), (0, 999999999), (1, 0), (2, 0), (1, 234567000), (59, 999600000),
        (3600, 1), (4294967295, 0), (4294967295, 999000000), (12345, 678499999), (7, 7000000), (0, 1500000), (0, 2500000)]
STRS = [b"song.flac", b"my playlist", b"\xc3\xa9t\xc3\xa9", b"a/b c.mp3", b"with \"quote\" and blank", b"", b"tab\there", b"(x == \"y\") z", b"name=value", b"100%"]
import codecgen as _cg
TAGS = [b"Artist", b"Album", b"MUSICBRAINZ_ALBUMID", b"any", b"x-custom", b"albumartist"] + _cg.KNOWN_TAGS
FILTERS = [
    {"k": "tag", "ctor": "tag", "tag": list(b"Artist"), "op": list(b"=="), "v": list(b"foo bar")},
    {"k": "and", "es": [{"k": "tag", "ctor": "new", "tag": list(b"Album"), "op": list(b"contains"), "v": list(b"it's")},
                        {"k": "not", "e": {"k": "tag", "ctor": "exists", "tag": list(b"Genre"), "op": list(b"!="), "v": []}}]},
    # a filter that was sent once (rendered / cloned) and is then negated or refined before it goes into the command
    {"k": "not", "bang": False, "e": {"k": "tag", "ctor": "tag", "tag": list(b"Artist"), "op": list(b"=="), "v": list(b"foo"), "pre": "render"}},
    {"k": "not", "bang": True, "e": {"k": "tag", "ctor": "new", "tag": list(b"Genre"), "op": list(b"contains"), "v": list(b"(Live)"), "pre": "clone_after"}},
    {"k": "and", "es": [{"k": "tag", "ctor": "tag", "tag": list(b"Artist"), "op": list(b"=="), "v": list(b"foo"), "pre": "clone"},
                        {"k": "tag", "ctor": "new", "tag": list(b"Album"), "op": list(b"!="), "v": list(b"b")}]},
]


def base_params():
    return {"s1": list(STRS[0]), "s2": list(b"second"), "s3": list(b"third v"), "n1": "3", "n2": "4", "n1d": list(b"3"), "n2d": list(b"4"), "b": False, "e": 0,
            "lo": ["inc", "1"], "hi": ["exc", "3"], "lok": "inc", "lod": list(b"1"), "hik": "exc", "hid": list(b"3"),
            "secs": "1", "secsd": list(b"1"), "nanos": 0, "tags": [list(TAGS[0]), list(TAGS[1]), list(TAGS[2])], "filter": FILTERS[0]}


def setn(p, k, v):
    p[k] = str(v)
    p[k + "d"] = list(str(v).encode())


def variants(kind, ctor, rng, quick):
    """Yield functions that set one dimension of the parameter record."""
    if kind in ("N1", "+N1", "-N1", "POS1"):
        return [lambda p, v=v: setn(p, "n1", v) for v in NUMS]
    if kind in ("N2", "+N2", "-N2"):
        return [lambda p, v=v: setn(p, "n2", v) for v in NUMS]
    if kind == "VOL":
        return [lambda p, v=v: setn(p, "n1", v) for v in VOLS]
    if kind == "B":
        return [lambda p, v=v: p.__setitem__("b", v) for v in (False, True)]
    if kind == "SINGLE":
        return [lambda p, v=v: p.__setitem__("e", v) for v in (0, 1, 2)]
    if kind == "RGM":
        return [lambda p, v=v: p.__setitem__("e", v) for v in (0, 1, 2, 3)]
    if kind in ("T", "+T", "-T", "XF"):
        ds = list(DURS)
        for _ in range(10 if quick else 300):
            ds.append((rng.choice([0, 1, 59, 3599, rng.randrange(2 ** 32)]), rng.randrange(10 ** 9)))

        def f(p, d):
            p["secs"] = str(d[0])
            p["secsd"] = list(str(d[0]).encode())
            p["nanos"] = d[1]
        return [lambda p, d=d: f(p, d) for d in ds]
    if kind == "R":
        out = []
        for lk in KINDS:
            for hk in KINDS:
                if hk == "unb" and ctor.startswith("MoveRange"):
                    continue  # documented to panic
                for lv in BVALS:
                    for hv in BVALS:
                        if lk == "unb" and lv != 0:
                            continue
                        if hk == "unb" and hv != 0:
                            continue

                        def f(p, lk=lk, hk=hk, lv=lv, hv=hv):
                            p["lo"], p["hi"] = [lk, str(lv)], [hk, str(hv)]
                            p["lok"], p["lod"], p["hik"], p["hid"] = lk, list(str(lv).encode()), hk, list(str(hv).encode())
                        out.append(f)
        return out
    if kind in ("S1", "S2", "S3", "S1OPT"):
        key = kind.lower()[:2]
        return [lambda p, v=v, key=key: p.__setitem__(key, list(v)) for v in STRS]
    if kind in ("TAG0", "TAG1", "TAG2"):
        idx = int(kind[3])

        def f(p, t, idx=idx):
            p["tags"] = list(p["tags"])
            p["tags"][idx] = list(t)
        return [lambda p, t=t: f(p, t) for t in TAGS]
    if kind == "TAGS":
        return [lambda p, n=n: p.__setitem__("tags", [list(t) for t in TAGS[:n]]) for n in (1, 2, 3, 6, 15, 16, 17, 31, 32, len(TAGS))]      # (argument counts around 16 / 32: nothing may be cut off)
    if kind == "F":
        return [lambda p, f=f: p.__setitem__("filter", f) for f in FILTERS]
    return [lambda p: None]


def cases(quick, seed):
    rng = random.Random(f"c15:{seed}")
    out = []
    for ctor, word, args in TABLE:
        dims = [variants(a if not a.startswith("KW:") else "KW", ctor, rng, quick) for a in args]
        dims = [d for d in dims if len(d) > 1] or [[lambda p: None]]
        # each dimension fully, others at base; plus random combinations
        combos = []
        for i, d in enumerate(dims):
            for f in d:
                combos.append([f])
        total = 1
        for d in dims:
            total *= len(d)
        nrand = min(total, 30 if quick else 600)
        if len(dims) > 1:
            for _ in range(nrand):
                combos.append([rng.choice(d) for d in dims])
        for fs in combos:
            p = base_params()
            for f in fs:
                f(p)
            out.append({"id": len(out), "ctor": ctor, "p": p})
    return out
