"""Reply construction for the typed-response checks (C12 C14 C16 C13-pairing).

Replies are ordered lists of key/value lines (+ optional payload) in MPD's formats, built here either the way the
server builds them (well-formed, with boundary values) or deliberately off-shape. What a reply MEANS is computed
by TLC from the recorded lines with spec/Typed.tla; this module never states an expectation."""
import random

NUMS = ["0", "1", "007", "100", "255", "256", "65536", "4294967295", "4294967296", "18446744073709551615", "18446744073709551616", "99999999999999999999999",
        "-1", "+5", "", " 1", "1 ", "abc", "1e3", "0x10", "1.0", "50\r", "\r5"]
GOODNUMS = ["0", "1", "7", "100", "255", "4294967295", "18446744073709551615", "12345678901234"]
DURS = ["0", "1", "0.001", "123.456", "5.5", "59.999", "0.0005", "1234567.891", "0.123456789", "1e400", "-0", "-1", "-0.5", "NaN", "nan", "inf", "-inf", "infinity", " 1", "", "abc",
        "1e3", ".5", "5.", "18446744073709551615", "18446744073709551616", "1.2.3", "999999999999", "1e-3", "+1.5", "0.0000000001"]
GOODDURS = ["0", "1", "0.001", "123.456", "5.5", "59.999", "240", "1234567.891", "0.5", "3599.999",
            "18446744074", "100000000000", "4611686019", "999999999999999", "18446744073.000"]   # whole seconds beyond 2^64 ns / 2^32 s: still exact
TAGKEYS = ["Artist", "Album", "Title", "Genre", "Track", "Disc", "Date", "MUSICBRAINZ_ALBUMID", "x-custom", "AlbumArtist", "Performer"]
ALL_TAGS = ["Artist", "ArtistSort", "Album", "AlbumSort", "AlbumArtist", "AlbumArtistSort", "Title", "Track", "Name", "Genre", "Date", "OriginalDate", "Composer", "ComposerSort",
            "Performer", "Conductor", "Work", "Ensemble", "Movement", "MovementNumber", "Location", "Grouping", "Comment", "Disc", "Label", "MUSICBRAINZ_ARTISTID", "MUSICBRAINZ_ALBUMID",
            "MUSICBRAINZ_ALBUMARTISTID", "MUSICBRAINZ_TRACKID", "MUSICBRAINZ_RELEASETRACKID", "MUSICBRAINZ_WORKID"]
TAGKEYS += ALL_TAGS
TAGKEYS += ["_comment", "-x", "x_", "a--b", "__"]     # the protocol's name alphabet is letters, `_` and `-` in any position
# names longer than any fixed-size scratch buffer a decoder might use (the protocol puts no limit on the length of a name)
TAGKEYS += ["X_VENDOR_SPECIFIC_EXTENSION_TAG_ID", "a" * 31, "a" * 32, "a" * 33, "Q" * 64, "Q" * 65, "x-" * 64, "MUSICBRAINZ_" * 22, "z" * 1000]
# known names in other letter cases (the library documents case-insensitive parsing: values must land under the same tag)
TAGKEYS_ODD = ["artist", "ARTIST", "title", "X_Y", "a-b", "x_y", "X-CUSTOM", "x-Custom", "mood", "Mood", "MOOD"] + [t.lower() for t in ALL_TAGS] + [t.upper() for t in ALL_TAGS] + [t.swapcase() for t in ALL_TAGS[::3]]
TEXT = ["", "x", "Foo Bar", "été", "a=b=c", "OK", "ACK [5@0] {} x", "binary: 3", "list_OK", "a: b", "100%", "  lead", "trail  ", "x" * 300,
        "dos line\r", "one\rtwo", "\r", "tab\there"]          # CR / TAB are ordinary value bytes (the line ends at LF only)
TS = ["2020-06-12T17:53:00Z", "2021-01-01T00:00:00+02:00", "1970-01-01T00:00:00Z"]
TS_ODD = ["", "yesterday", "2020-13-45T99:99:99Z", "2020-06-12"]
URLS = ["a.flac", "dir/b c.mp3", "é.ogg", "http://x/y?z=1", "x"]


# long values with a multi-byte character sitting across a power-of-two byte offset (error paths that shorten / copy values)
LONGS = ["x" * k + "\u00e9" + "z" * 5 for k in (62, 63, 126, 127, 254, 255, 256, 510, 511, 1022, 1023, 4094, 4095)] + ["\u4e2d" * 100, "\U0001f3b5" * 70]
# every offset 63 / 64, 127 / 128, ... 1023 / 1024 in the pools of REJECTED values (plus a few more lengths: 15 / 16, 31 / 32)
LONGS = ["x" * k + "\u00e9" + "z" * 5 for k in (14, 15, 30, 31)] + LONGS
NUMS += LONGS[0:15]
DURS += LONGS[0:15]
TEXT += LONGS[3:13]
TS_ODD += LONGS[0:15]
RANGES_GOOD = ["1.5-3", "0-", "10.000-20.250", "0-0", "5-1", "10.5-0", "3-2.999"]     # a reversed range is still two valid times
RANGES_ODD = ["-", "1", "a-b", "1-2-3", "-5", "1--2", "", "5-1e400", "nan-1", "1e400-", "-0-1"] + LONGS[0:15]
ENUM_ODD = LONGS[0:15]


def b(s):
    return list(s.encode())


def kv(k, v):
    return [b(k), b(v) if isinstance(v, str) else v]


def b2s(v):
    return bytes(v).decode("utf-8", "replace")


def song_attrs(rng, good, queue):
    attrs = []
    pick = lambda g, o: rng.choice(g) if good or rng.random() < 0.75 else rng.choice(o)
    if rng.random() < 0.6:
        attrs.append(kv("duration", pick(GOODDURS, DURS)))
    if rng.random() < 0.4:
        attrs.append(kv("Time", pick(["0", "123", "240"], DURS)))
    if rng.random() < 0.3:
        attrs.append(kv("Range", pick(RANGES_GOOD, RANGES_GOOD + RANGES_ODD)))
    if rng.random() < 0.4:
        attrs.append(kv("Format", rng.choice(["44100:16:2", "48000:f:6", "*:*:*", ""])))
    if rng.random() < 0.5:
        attrs.append(kv("Last-Modified", pick(TS, TS + TS_ODD)))
    if queue or rng.random() < 0.2:
        if rng.random() < 0.9:
            attrs.append(kv("Pos", pick(GOODNUMS, NUMS)))
        if rng.random() < 0.9:
            attrs.append(kv("Id", pick(GOODNUMS, NUMS)))
        if rng.random() < 0.4:
            attrs.append(kv("Prio", pick(["0", "1", "255", "10"], NUMS)))
    for _ in range(rng.randint(0, 4)):
        k = rng.choice(TAGKEYS) if rng.random() < 0.75 else rng.choice(TAGKEYS_ODD)
        attrs.append(kv(k, rng.choice(TEXT)))
        if rng.random() < 0.25:
            # the same tag again: an identical value (a file tagged twice), or the same unknown name in another letter case
            k2 = k if rng.random() < 0.7 or k in ALL_TAGS else rng.choice([k.lower(), k.upper(), k.swapcase()])
            attrs.append(kv(k2, attrs[-1][1] if rng.random() < 0.6 else b2s(attrs[-1][1]) + "2"))
    rng.shuffle(attrs)
    if not good and rng.random() < 0.15 and attrs:
        attrs.append(rng.choice(attrs))  # a repeated attribute
    return attrs


def listing(rng, good, queue, maxn=3):
    fields = []
    for _ in range(rng.randint(0, maxn)):
        x = rng.random()
        if x < 0.7 or queue:
            fields.append(kv("file", rng.choice(URLS) if good or rng.random() < 0.9 else ""))
            fields += song_attrs(rng, good, queue)
        elif x < 0.85:
            fields.append(kv("directory", rng.choice(["d", "a/b"])))
            if rng.random() < 0.6:
                fields.append(kv("Last-Modified", rng.choice(TS)))
        else:
            fields.append(kv("playlist", rng.choice(["p.m3u", "x y"])))
            if rng.random() < 0.6:
                fields.append(kv("Last-Modified", rng.choice(TS)))
    if not good:
        y = rng.random()
        if y < 0.1 and fields:
            fields.insert(0, kv("Title", "orphan attribute before any entry"))
        elif y < 0.15:
            fields.append(kv("foo", "bar"))
    return fields


def status(rng, good):
    pick = lambda g, o: rng.choice(g) if good or rng.random() < 0.8 else rng.choice(o)
    f = []
    opt = lambda p: rng.random() < p
    if opt(0.8):
        f.append(kv("volume", pick(["0", "50", "100", "101", "255"], NUMS)))
    f.append(kv("repeat", pick(["0", "1"], ["2", "", "true", "01", "00", "+1", "+0", "001"] + ENUM_ODD)))
    f.append(kv("random", pick(["0", "1"], ["2", "", "-1", "01", "+1", "1 ", "yes"])))
    if opt(0.8):
        f.append(kv("single", pick(["0", "1", "oneshot"], ["2", "", "Oneshot", "on"] + ENUM_ODD)))
    f.append(kv("consume", pick(["0", "1"], ["oneshot", "2", "", "00", "+0"])))
    if opt(0.7):
        f.append(kv("partition", rng.choice(["default", "x y", ""])))
    if opt(0.8):
        f.append(kv("playlist", pick(["0", "5", "4294967295"], NUMS)))
    if opt(0.8):
        f.append(kv("playlistlength", pick(GOODNUMS, NUMS)))
    f.append(kv("state", pick(["play", "stop", "pause"], ["playing", "", "PLAY", "paused"] + ENUM_ODD)))
    if opt(0.5):
        f.append(kv("song", pick(GOODNUMS, NUMS)))
        if good or opt(0.9):
            f.append(kv("songid", pick(GOODNUMS, NUMS)))
    if opt(0.3):
        f.append(kv("nextsong", pick(GOODNUMS, NUMS)))
        if good or opt(0.9):
            f.append(kv("nextsongid", pick(GOODNUMS, NUMS)))
    if opt(0.4):
        f.append(kv("elapsed", pick(GOODDURS, DURS)))
    if opt(0.4):
        f.append(kv("duration", pick(GOODDURS, DURS)))
    if opt(0.5):
        # the deprecated combined line every playing server sends next to (or, for a stream of unknown length, without) elapsed / duration
        f.append(kv("time", rng.choice(["0", "12", "30", "3599"]) + ":" + rng.choice(["0", "0", "240", "3600"])))
    if opt(0.4):
        f.append(kv("bitrate", pick(GOODNUMS, NUMS)))
    if opt(0.4):
        f.append(kv("xfade", pick(["0", "5", "10"], DURS)))
    if opt(0.3):
        f.append(kv("mixrampdb", "0.000000"))
    if opt(0.3):
        f.append(kv("audio", "44100:24:2"))
    if opt(0.3):
        f.append(kv("updating_db", pick(GOODNUMS, NUMS)))
    if opt(0.2):
        f.append(kv("error", rng.choice(TEXT)))
    if not good:
        y = rng.random()
        if y < 0.1:
            f = [x for x in f if bytes(x[0]) != rng.choice([b"state", b"repeat", b"random", b"consume"])]
        elif y < 0.15:
            f.append(kv("time", rng.choice(["30:240", "30", ":", "x:y", "1:nan", ""])))
        elif y < 0.2:
            f.append(kv("Time", rng.choice(["30:240", "30", ":", "1:nan"])))
        elif y < 0.25 and f:
            f.append(rng.choice(f))
    rng.shuffle(f)
    return f


def stats(rng, good):
    pick = lambda g, o: rng.choice(g) if good or rng.random() < 0.8 else rng.choice(o)
    f = [kv("uptime", pick(["0", "12345", "1234567"], DURS)), kv("playtime", pick(["0", "999"], DURS)), kv("artists", pick(GOODNUMS, NUMS)), kv("albums", pick(GOODNUMS, NUMS)),
         kv("songs", pick(GOODNUMS, NUMS)), kv("db_playtime", pick(["0", "1234567"], DURS)), kv("db_update", pick(GOODNUMS, NUMS))]
    if not good and rng.random() < 0.2:
        f.pop(rng.randrange(len(f)))
    rng.shuffle(f)
    return f


def count(rng, good):
    pick = lambda g, o: rng.choice(g) if good or rng.random() < 0.8 else rng.choice(o)
    f = [kv("songs", pick(GOODNUMS, NUMS)), kv("playtime", pick(["0", "240", "1234567"], DURS))]
    if rng.random() < 0.5:
        f.reverse()
    if not good and rng.random() < 0.2:
        f.pop()
    return f


def count_grouped(rng, good, tag):
    pick = lambda g, o: rng.choice(g) if good or rng.random() < 0.85 else rng.choice(o)
    f = []
    for _ in range(rng.randint(0, 4)):
        f.append(kv(tag if good or rng.random() < 0.9 else rng.choice(["Artist", tag.lower(), "songs"]), rng.choice(TEXT)))
        pair = [kv("songs", pick(GOODNUMS, NUMS)), kv("playtime", pick(["0", "240"], DURS))]
        if rng.random() < 0.3:
            pair.reverse()
        f += pair
    if not good:
        y = rng.random()
        if y < 0.15 and f:
            f.pop()
        elif y < 0.25 and f:
            f.insert(rng.randrange(len(f)), kv("songs", "1"))
        elif y < 0.4:
            # a group whose two lines carry the SAME known field (valid values)
            k = rng.choice(["songs", "playtime"])
            f += [kv(tag, "dup"), kv(k, "1"), kv(k, "1")]
    return f


def list_reply(rng, good, tag, groups):
    f = []
    keys = [tag] + groups
    for _ in range(rng.randint(0, 8)):
        if groups and rng.random() < 0.4:
            f.append(kv(rng.choice(groups), rng.choice(TEXT)))
        else:
            f.append(kv(tag, rng.choice(TEXT)))
    if not good and rng.random() < 0.5:
        for _ in range(rng.randint(1, 2)):
            f.insert(rng.randrange(len(f) + 1), kv(rng.choice(["Artist", "Genre", "x-other", tag.lower(), "file"]), "foreign"))
    return f, keys


def pairs(rng, good, k1, k2, v1, v2):
    f = []
    for _ in range(rng.randint(0, 4)):
        f.append(kv(k1, rng.choice(v1)))
        f.append(kv(k2, rng.choice(v2)))
    if not good:
        y = rng.random()
        if y < 0.3 and f:
            f.pop(rng.randrange(len(f)))
        elif y < 0.5:
            f.insert(rng.randrange(len(f) + 1), kv("foo", "bar"))
    return f


STICKV = ["name=value", "a=b=c", "rating=5", "=", "x=", "=y", "k=é", "note=dos line\r", "n=one\rtwo",
          # sticker NAMES with non-ASCII characters; values that begin with the requested name ("n", "rating") followed by other characters
          "évaluation=5", "humör=glad=ja", "né=1", "評価=3", "nü=x", "ratingé=5", "rating", "n", "nn=n=n", "ratings=4"]
STICKV_ODD = ["novalue", "", "x"] + LONGS[0:15]


def offshape(rng):
    """Lines that ignore the command's shape altogether (C12)."""
    keys = ["file", "directory", "playlist", "Last-Modified", "duration", "Time", "Range", "Format", "Prio", "Pos", "Id", "Artist", "artist", "Title", "songs", "playtime", "sticker",
            "channel", "message", "tagtype", "updating_db", "size", "type", "state", "volume", "repeat", "random", "consume", "single", "song", "songid", "xfade", "elapsed", "foo", "a-b", "X_y",
            "changed", "replay_gain_mode", "uptime", "artists", "albums", "db_playtime", "db_update", "nextsong", "nextsongid", "bitrate", "playlistlength", "error", "partition",
            "a1", "é", "key with space"]
    vals = NUMS + DURS + TEXT + STICKV + STICKV_ODD + TS + TS_ODD + ["play", "oneshot", "off", "track", "1:2", "a:b:c", "5-", "-"]
    return [kv(rng.choice(keys), rng.choice(vals)) for _ in range(rng.randint(0, 7))]


ALL_CMDS = ["Queue", "QueueRange", "CurrentSong", "Find", "GetPlaylist", "ListAllIn", "Status", "Stats", "ReplayGainStatus", "Count", "CountGrouped", "List", "ListGroup1", "ListGroup2",
            "GetPlaylists", "StickerGet", "StickerList", "StickerFind", "ListChannels", "ReadChannelMessages", "GetEnabledTagTypes", "Update", "Rescan", "Add", "AlbumArt", "AlbumArtEmbedded",
            "Ping", "SetVolume", "Play", "TagTypes", "StickerSet"]
BASE_P = {"tags": [b("Title"), b("Album"), b("Artist")]}


def shaped(rng, cmd, good):
    """(fields, bin, p) in the shape of cmd's reply."""
    p = dict(BASE_P)
    binv = []
    if cmd in ("Queue", "QueueRange"):
        f = listing(rng, good, True)
        if cmd == "QueueRange":
            p["qkind"] = rng.choice(["song", "id", "range", "range", "range_incl", "range_from", "range_to", "range_full"])
            p["qfrom"], p["qto"] = rng.choice([(0, 0), (0, 1), (2, 5), (5, 2), (5, 3), (3, 3), (0, 4294967295), (7, 0)])
    elif cmd == "CurrentSong":
        f = listing(rng, good, True, maxn=1 if good or rng.random() < 0.8 else 2)
    elif cmd in ("Find", "GetPlaylist"):
        f = listing(rng, good, False) if cmd == "Find" else [x for x in listing(rng, good, False)]
    elif cmd == "ListAllIn":
        f = listing(rng, good, False, maxn=4)
    elif cmd == "Status":
        f = status(rng, good)
    elif cmd == "Stats":
        f = stats(rng, good)
    elif cmd == "Count":
        f = count(rng, good)
    elif cmd == "CountGrouped":
        tag = rng.choice(["Album", "Artist", "MUSICBRAINZ_ALBUMID", "x-custom"])
        p = {"tags": [b(tag), b("Album"), b("Artist")]}
        f = count_grouped(rng, good, tag)
    elif cmd in ("List", "ListGroup1", "ListGroup2"):
        tag = rng.choice(["Title", "Genre", "x-custom"])
        groups = {"List": [], "ListGroup1": ["Album"], "ListGroup2": ["Album", "Artist"]}[cmd]
        f, keys = list_reply(rng, good, tag, groups)
        p = {"tags": [b(k) for k in keys] + [b("Date")] * (3 - len(keys))}
    elif cmd == "GetPlaylists":
        f = pairs(rng, good, "playlist", "Last-Modified", ["p", "x y", ""], TS if good else TS + TS_ODD)
    elif cmd == "StickerGet":
        p["sname"] = rng.choice(["n", "n", "rating", "né", "name"])
        f = [kv("sticker", rng.choice(STICKV if good else STICKV + STICKV_ODD))]
        if not good and rng.random() < 0.3:
            f = rng.choice([[], [kv("foo", "a=b")], f + f])
    elif cmd == "StickerList":
        f = [kv("sticker", rng.choice(STICKV if good else STICKV + STICKV_ODD)) for _ in range(rng.randint(0, 4))]
    elif cmd == "StickerFind":
        f = pairs(rng, good, "file", "sticker", URLS, STICKV if good else STICKV + STICKV_ODD)
    elif cmd == "ListChannels":
        f = [kv("channel" if good or rng.random() < 0.9 else "chan", rng.choice(TEXT)) for _ in range(rng.randint(0, 4))]
    elif cmd == "ReadChannelMessages":
        f = pairs(rng, good, "channel", "message", ["c1", "c 2"], TEXT)
    elif cmd == "GetEnabledTagTypes":
        f = [kv("tagtype", rng.choice(TAGKEYS + (TAGKEYS_ODD if not good else []) + ([] if good else ["", "a b", "é", "1x"] + ENUM_ODD))) for _ in range(rng.randint(0, 5))]
    elif cmd in ("Update", "Rescan"):
        f = [kv("updating_db", rng.choice(GOODNUMS if good else NUMS))]
        if not good and rng.random() < 0.3:
            f = rng.choice([[], [kv("update_job", "1")], f + f])
    elif cmd == "Add":
        f = [kv("Id", rng.choice(GOODNUMS if good else NUMS))]
        if not good and rng.random() < 0.3:
            f = rng.choice([[], [kv("id", "1")]])
    elif cmd == "ReplayGainStatus":
        f = [kv("replay_gain_mode", rng.choice(["off", "track", "album", "auto"] if good else ["off", "Off", "", "both"] + ENUM_ODD))]
    elif cmd in ("AlbumArt", "AlbumArtEmbedded"):
        f = []
        if rng.random() < 0.85:
            f.append(kv("size", rng.choice(GOODNUMS if good else NUMS)))
        if rng.random() < 0.5:
            f.append(kv("type", rng.choice(["image/jpeg", "", "x y"])))
        if rng.random() < 0.85:
            binv = [[rng.randrange(256) for _ in range(rng.choice([0, 1, 5, 40]))]]
    else:
        f = offshape(rng) if rng.random() < 0.5 else []
    return f, binv, p


def single_cases(rng, cmds, n_good, n_bad, n_off):
    cases = []
    for cmd in cmds:
        for _ in range(n_good):
            f, bn, p = shaped(rng, cmd, True)
            cases.append({"kind": "single", "cmd": cmd, "p": p, "frame": {"fields": f, "bin": bn}})
        for _ in range(n_bad):
            f, bn, p = shaped(rng, cmd, False)
            cases.append({"kind": "single", "cmd": cmd, "p": p, "frame": {"fields": f, "bin": bn}})
        for _ in range(n_off):
            cases.append({"kind": "single", "cmd": cmd, "p": dict(BASE_P), "frame": {"fields": offshape(rng), "bin": [] if rng.random() < 0.8 else [[1, 2, 3]]}})
    return cases


def list_cases(rng, reps):
    """Typed command lists: tuple arities 1..8 and vectors, with matching and mismatching frame counts."""
    cases = []

    def frame_for(kind, good):
        if kind == 0:
            return {"fields": [kv("sticker", rng.choice(STICKV if good else STICKV + STICKV_ODD))], "bin": []}
        if kind == 1:
            return {"fields": [kv("updating_db", rng.choice(GOODNUMS if good else NUMS))], "bin": []}
        if kind == 2:
            return {"fields": [kv("Id", rng.choice(GOODNUMS if good else NUMS))], "bin": []}
        return {"fields": [kv("channel", rng.choice(["c%d" % rng.randrange(100), "x y"])) for _ in range(rng.randint(0, 3))], "bin": []}

    for _ in range(reps):
        for arity in range(1, 9):
            for delta in (0, 0, 0, -1, 1, -arity, 3):
                nfr = max(0, arity + delta)
                good = rng.random() < 0.8
                frames = [frame_for(k % 4, good) for k in range(nfr)]
                cases.append({"kind": "list", "shape": "tuple", "arity": arity, "frames": frames})
        # binary-bearing commands inside a list (shape "arts"): a picture chunk in a frame that is not the first, followed by
        # frames without one - the whole reply goes through the real protocol layer in one receive
        arts_kinds = [0, 5, 5, 5, 1, 5, 0, 5]
        for arity in range(2, 9):
            for _rep in range(3):
                frames = []
                for k in range(arity):
                    if arts_kinds[k] != 5:
                        frames.append(frame_for(arts_kinds[k], True))
                    elif rng.random() < 0.5:
                        frames.append({"fields": [], "bin": []})
                    else:
                        data = [rng.choice([10, 79, 75, 0, 255, 98]) for _ in range(rng.choice([0, 1, 5, 40]))]
                        f = [kv("size", str(rng.choice([len(data), 40, 70000])))]
                        if rng.random() < 0.5:
                            f.append(kv("type", "image/png"))
                        frames.append({"fields": f, "bin": [data]})
                cases.append({"kind": "list", "shape": "arts", "arity": arity, "frames": frames})
        for arity in (0, 1, 2, 3, 5, 9):
            for delta in (0, 0, -1, 1, 2):
                nfr = max(0, arity + delta)
                frames = [frame_for(0, rng.random() < 0.85) for _ in range(nfr)]
                cases.append({"kind": "list", "shape": "vec", "arity": arity, "frames": frames})
    return cases
