"""Case construction for the wire checks: segmentations, truncations, mutations, byte soup, large streams.

The streams of well-formed responses come from TLC (spec/WireGen.tla enumerates abstract responses and
encodes them with Wire.tla's Encode). This module only decides HOW they are fed (cuts, flavour) and derives
truncated / mutated variants; what the outcome must be is computed by TLC from the recorded bytes."""
import json
import random
import re

ALPHABET = [10, 32, 58, 48, 65, 255, 0, 13, 91, 123]


def parse_cases(tlc_out):
    out = []
    for m in re.finditer(r'<<\s*"CASE",\s*"((?:[^"\\]|\\.)*)"\s*>>', tlc_out, re.S):
        raw = re.sub(r"\s*\n\s*", "", m.group(1))
        out.append(json.loads(json.loads('"' + raw + '"')))
    return out


def rand_cuts(rng, n, k):
    if n <= 1:
        return []
    return sorted(rng.sample(range(1, n), min(k, n - 1)))


def feeds(rng, stream, nseg, exhaustive_single=False):
    """(flavour, cuts, pend) triples: first the async one-shot baseline."""
    n = len(stream)
    out = [("async", [], False), ("sync", [], False)]
    if n > 1:
        out.append((rng.choice(["sync", "async"]), list(range(1, n)), False))  # one byte at a time
    if exhaustive_single:
        for c in range(1, n):
            out.append(("sync" if c % 2 else "async", [c], c % 3 == 0))
    for _ in range(nseg):
        out.append((rng.choice(["sync", "async"]), rand_cuts(rng, n, rng.randint(1, 4)), rng.random() < 0.3))
    # cuts at line ends and just around them
    ends = [i + 1 for i, b in enumerate(stream) if b == 10]
    if ends and nseg > 0:
        e = rng.choice(ends)
        out.append((rng.choice(["sync", "async"]), sorted({max(1, e - 1), e, min(n, e + 1)} - {n}), False))
    return out


def mutate(rng, s):
    s = list(s)
    k = rng.random()
    if not s:
        return [rng.choice(ALPHABET)]
    i = rng.randrange(len(s))
    if k < 0.3:
        del s[i]
    elif k < 0.65:
        s[i] = rng.choice(ALPHABET + [rng.randrange(256)])
    elif k < 0.9:
        s.insert(i, rng.choice(ALPHABET + [rng.randrange(256)]))
    else:
        j = rng.randrange(len(s))
        s[i], s[j] = s[j], s[i]
    return s


EDGE_LINES = [
    b"binary: 18446744073709551615\nOK\n", b"binary: 18446744073709551616\nOK\n", b"binary: 99999999999999999999999999\nOK\n",
    b"binary: 9223372036854775808\n", b"binary: 4294967296\nab", b"binary: 0\n\nOK\n", b"binary: 00000000000000000000000000003\nabc\nOK\n",
    b"ACK [18446744073709551615@18446744073709551615] {x} m\n", b"ACK [18446744073709551616@0] {} m\n", b"ACK [9999999999999999999999999@0] {} x\n",
    b"ACK [5@0] {} \xff\n", b"ACK [5@0] {pl4y} x\n", b"ACK [5@0] {} \n", b"ACK [5@0]{} x\n", b"ACK [@0] {} x\n", b"ACK [5@] {} x\n", b"ACK \n", b"ACK: x\nOK\n",
    b"a: \xff\nOK\n", b"a: \xc3\nOK\n", b"a: \xed\xa0\x80\nOK\n", b"a: \xf4\x90\x80\x80\nOK\n", b"a: \xf0\x9f\x8e\xb5\nOK\n", b"a: x\x00y\nOK\n", b"\x00\nOK\n",
    b"a\x00b: c\nOK\n", b"OK\r\n", b"OK \n", b" OK\n", b"ok\n", b"list_ok\nOK\n", b"list_OK \nOK\n", b"\n", b"\nOK\n", b"a:b\nOK\n", b"a : b\nOK\n", b": b\nOK\n", b"a1: b\nOK\n",
    b"a-b_C: d\nOK\n", b"\xc3\xa9: d\nOK\n", b"binary: 3\nabcd\nOK\n", b"binary: 3\nab\nOK\n", b"binary: -1\nOK\n", b"binary: +1\nOK\n", b"binary: 1 \nOK\n", b"binary:3\nabc\nOK\n",
    b"list_OK\na: b\nlist_OK\nACK [184467440737095516015@0] {a_b} ", b"ACK [99999999999999999999999", b"ACK [5@99999999999999999999999", b"ACK [5@0] {a_b} partial",
    b"OK\nOK\nOK\n", b"list_OK\nlist_OK\nOK\n", b"list_OK\nOK\n", b"a: b\nACK [5@0] {} x\n", b"OK", b"list_OK", b"ACK [5@0] {} x", b"a: b", b"binary: 3", b"binary: 3\n", b"binary: 3\nabc",
]

# rejected lines longer than 64 / 128 / 256 bytes with an invalid byte, or a multi-byte character, at every offset around that length
# (error paths that quote or shorten the offending line)
for _thr in (16, 32, 64, 128, 256):
    for _off in range(_thr - 4, _thr + 2):
        EDGE_LINES.append(b"a: " + b"x" * (_off - 3) + b"\xff" + b"y" * 8 + b"\nOK\n")
        EDGE_LINES.append(b"x" * _off + "\u00e9".encode() + b"yyyy\nOK\n")
        EDGE_LINES.append(b"x" * _off + "\U0001f3b5".encode() + b" no colon\n")

GREETINGS = [
    b"OK MPD 0.23.5\n", b"OK MPD 0.21.11\n", b"OK MPD x\n", b"OK MPD 0.24 beta \xc3\xa9\n", b"OK MPD  \n", b"OK MPD 0.23.5\r\n", b"OK MPD " + b"9" * 5000 + b"\n",
    b"foobar\n", b"OK MPD \n", b"OK MPD 0.2\xff3\n", b"ok mpd 0.23.5\n", b"OK  MPD 0.23.5\n", b"\n", b"ACK [5@0] {} x\n", b"OK\n", b"OK MPD 0.23\xc3\n", b"OK MPD\n", b"OK MPD 0\x00.1\n",
    b"OK MPD 0.23.5", b"OK MP", b"O", b"", b"foo", b"OK MPD \xc3", b"OK MPD " + b"1" * 9000, b"OK MPD 0.23.5\nOK\n",
    b"OK MPD 0.24~\xce\xb21\n", b"OK MPD 0.24.4-\xc3\xa9\xe2\x86\x92\xf0\x9f\x8e\xb5~git\n", b"OK MPD \xf0\x9f\x8e\xb5\n", b"OK MPD 0.24 \xf0\x9f\x8e",
]

for _thr in (64, 128):
    for _off in range(_thr - 4, _thr + 2):
        GREETINGS.append(b"OK MPD " + b"9" * (_off - 7) + b"\xff" + b"1\n")
        GREETINGS.append(b"foo" + b"x" * (_off - 3) + "\u00e9".encode() + b"zz\n")

# ---- canonical digest of projected outcomes (twin of harness/src/wire.rs::canon), used for large streams
def fnv(b):
    h = 0xCBF29CE484222325
    for x in b:
        h ^= x
        h = (h * 0x100000001B3) & 0xFFFFFFFFFFFFFFFF
    return h


def big_stream(rng, target, huge=0):
    """A large well-formed stream (several responses, long values, binary payloads with protocol look-alikes).
    Returns (bytes, number of responses, canonical digest of the expected outcomes)."""
    out = bytearray()
    canon = bytearray()
    nresp = 0
    bounds = []  # (stream offset, canon length) after each complete response
    while len(out) < target:
        lst = rng.random() < 0.4
        nframes = rng.randint(1, 3) if lst else 1
        canon += b"resp|"
        for _ in range(nframes):
            canon += b"F"
            for _ in range(rng.randint(0, 4)):
                k = rng.choice([b"file", b"Title", b"A-b", b"x_y", b"title", b"TITLE", b"Titl", b"Titles", b"File"])  # keys are interned per connection
                ln = rng.choice([0, 1, 10, 200, 3000, 4095, 4096, 4097, 9000])
                v = bytes(rng.choice(b"abcOK: \xc3\xa9"[:8]) for _ in range(ln))
                v = v.replace(b"\xc3", b"c")  # keep valid UTF-8 (no stray lead bytes)
                out += k + b": " + v + b"\n"
                canon += k + b":" + v + b"\n"
            if rng.random() < 0.5 or (huge and nresp == 0):
                ln = rng.choice([0, 1, 100, 4090, 4096, 5000, 8192, 20000])
                if huge and nresp == 0:
                    ln = huge  # a binary chunk far beyond every buffer doubling, followed by further responses
                p = bytes(rng.choice([10, 79, 75, 0, 255, 98, 58, 32]) for _ in range(ln))
                out += b"binary: %d\n" % ln + p + b"\n"
                canon += b"B%d:" % ln + p
            if lst:
                out += b"list_OK\n"
        out += b"OK\n"
        canon += b"E-|"
        nresp += 1
        bounds.append((len(out), len(canon)))
    return bytes(out), nresp, canon, bounds


def big_cuts(rng, n):
    marks = [4096 * (2 ** k) + d for k in range(0, 5) for d in (-2, -1, 0, 1, 2)]
    marks = [m for m in marks if 0 < m < n]
    k = rng.random()
    if k < 0.2:
        return []
    if k < 0.5:
        return sorted(set(rng.sample(marks, min(len(marks), rng.randint(1, 4)))))
    if k < 0.7:
        step = rng.choice([1000, 4096, 4095, 4097, 7, 100])
        return list(range(step, n, step))
    return rand_cuts(rng, n, rng.randint(2, 30))


def small_stream(rng, nresp):
    """Many small responses back to back (status-like replies of 1-3 short fields, some idle-like `changed:` replies):
    response starts fall right before every internal buffer boundary. Returns (bytes, nresp, canon, bounds)."""
    out = bytearray()
    canon = bytearray()
    bounds = []
    for _ in range(nresp):
        canon += b"resp|F"
        for _ in range(rng.choice([0, 1, 1, 2, 3])):
            k = rng.choice([b"changed", b"volume", b"state", b"a", b"A", b"Changed", b"change", b"changed-x", b"Volume"])  # keys are interned per connection
            v = rng.choice([b"player", b"mixer", b"5", b"play", b"", b"x" * rng.randint(0, 30)])
            out += k + b": " + v + b"\n"
            canon += k + b":" + v + b"\n"
        out += b"OK\n"
        canon += b"E-|"
        bounds.append((len(out), len(canon)))
    return bytes(out), nresp, canon, bounds


def aligned_stream(rng):
    """History + threshold: a response that makes the receive buffer grow past its initial 4096 bytes, directly followed by a
    response that begins with one big component (long line or binary chunk), then a small one. Returns (bytes, nresp, canon, bounds)."""
    out = bytearray()
    canon = bytearray()
    bounds = []

    def field(k, v):
        nonlocal out, canon
        out += k + b": " + v + b"\n"
        canon += k + b":" + v + b"\n"

    def end():
        nonlocal out, canon
        out += b"OK\n"
        canon += b"E-|"
        bounds.append((len(out), len(canon)))

    canon += b"resp|F"
    if rng.random() < 0.5:
        field(b"comment", b"x" * rng.choice([4090, 5000, 8190, 9000, 12000]))
    else:
        ln = rng.choice([4096, 5000, 8192, 9000])
        p = bytes(rng.choice([10, 79, 75, 0, 255, 98]) for _ in range(ln))
        out += b"binary: %d\n" % ln + p + b"\n"
        canon += b"B%d:" % ln + p
    end()
    canon += b"resp|F"
    if rng.random() < 0.5:
        ln = rng.choice([4096, 6000, 10000, 20000])
        p = bytes(rng.choice([10, 79, 75, 0, 255, 98]) for _ in range(ln))
        out += b"binary: %d\n" % ln + p + b"\n"
        canon += b"B%d:" % ln + p
    else:
        field(b"Title", b"y" * rng.choice([4096, 5000, 9000]))
    end()
    canon += b"resp|F"
    field(b"volume", b"100")
    end()
    return bytes(out), 3, canon, bounds


def aligned_cuts(bounds, n, leftover):
    """Reads: fill the initial buffer exactly, then stop 3 bytes before the end of the first response, then deliver its last 3 bytes
    together with exactly `leftover` bytes of the next response, then the rest."""
    b1 = bounds[0][0]
    cuts = [4096, b1 - 3, min(n, b1 + leftover)]
    return sorted({c for c in cuts if 0 < c < n})
