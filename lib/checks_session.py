"""Session-family checks (C01 C04 C05 C08 C13-pairing C17 C18): Loop.tla design check, schedule generation
from the model + seeded random schedules, replay into the real client, SessionTrace validation by TLC."""
import hashlib
import json
import os
import time

import common as C
import sched as S
import tlcgen

# which monitor tags count for which property check ("PANIC": a task of the client panicked)
TAGS = {
    "C01": {"C01", "C13", "PANIC"},
    "C04": {"C04"},
    "C05": {"C05"},
    "C08": {"C08", "PANIC"},
    "C13": {"C13"},
    "C17": {"C17"},
    "C18": {"C18"},
}

DESIGN = {
    # property: (quick configs, thorough configs, mutant self-tests [cfg, expected tag])
    "C01": (["Loop_quick.cfg"], ["Loop_small.cfg", "Loop_faults.cfg", "Loop_live2.cfg", "Loop_three.cfg"], [("Loop_mut_forward_noidle.cfg", "C01")]),
    "C04": (["Loop_quick.cfg", "Loop_ideal.cfg"], ["Loop_small.cfg", "Loop_ideal.cfg", "Loop_faults.cfg"],
            [("Loop_mut_firstonly.cfg", "C04"), ("Loop_mut_strict.cfg", "C04")]),
    "C05": (["Loop_quick.cfg", "Loop_live.cfg"], ["Loop_small.cfg", "Loop_faults.cfg", "Loop_live.cfg", "Loop_live2.cfg", "Loop_three.cfg"], [("Loop_mut_skip_noidle.cfg", "C05"), ("Loop_mut_no_reidle.cfg", "C05")]),
    "C08": (["Loop_faults_quick.cfg", "Loop_quick.cfg", "Loop_live_faults.cfg"], ["Loop_faults.cfg", "Loop_small.cfg", "Loop_live_faults.cfg"], [("Loop_mut_exit_without_answer.cfg", "C08")]),
    "C17": (["AlbumArt.cfg"], ["AlbumArt.cfg", "AlbumArt_big.cfg"], [("AlbumArt_mut_limit_offset.cfg", "C17"), ("AlbumArt_mut_empty_is_none.cfg", "C17"), ("AlbumArt_mut_no_fallback.cfg", "C17")]),
    "C18": (["Handshake.cfg"], ["Handshake.cfg"], [("Handshake_mut_eof_is_ok.cfg", "C18"), ("Handshake_mut_skip_verdict.cfg", "C18"), ("Handshake_mut_accept_invalid.cfg", "C18")]),
}
DESIGN_MODULE = {"AlbumArt.cfg": "AlbumArt", "AlbumArt_big.cfg": "AlbumArt", "Handshake.cfg": "Handshake"}

MODEL_SCOPE = {
    "loop": "Loop.tla exhaustive: 2 callers x 1 request (single / failing / 2-command list with scripted failure), <= 2 server changes of <= 2 subsystems, "
            "every half-line segmentation, both select! outcomes, timer, cancel, handle drop; faults config: one fault of each kind at every state; "
            "thorough C01 / C05 also 3 callers x 1 request x 1 change with cancel and drop (Loop_three.cfg, ~9 M distinct states); liveness configs without state constraint",
    "C17": "AlbumArt.tla exhaustive: Client::album_art as coded x the server's picture rules for every embedded / file picture size -1..6 (thorough: ..12), chunk limit 1..4 (..7), "
           "MIME present / absent, scripted ACK 0 / 5 / 50 on either command; invariants: request sequence, result, offsets strictly increasing; liveness: termination",
    "C18": "Handshake.tla exhaustive: do_connect as coded x greeting kinds {valid, invalid, cut viable, cut bad} x every half-line segmentation x password {none, accepted, wrong} x "
           "verdict {OK, ACK 3, ACK 4, garbage, close, cut reply} x peer close at every point",
}

PROFILES = {
    # property: [(profile, quick n, thorough n)]
    "C01": [("base", 700, 12000), ("faults", 300, 6000), ("long", 25, 400), ("burst", 12, 200)],
    "C04": [("base", 900, 16000), ("faults", 200, 4000), ("long", 60, 800), ("lazy", 12, 200)],
    "C05": [("base", 700, 12000), ("faults", 200, 4000), ("handshake", 150, 2000), ("lazy", 12, 200)],
    "C08": [("faults", 900, 16000), ("base", 200, 3000), ("lazy", 12, 200), ("handshake", 150, 2500)],
    "C17": [("art", 250, 5000)],
    "C18": [("handshake", 1500, 30000)],
}

GEN = {
    # property: [(gen cfg, ncallers, quick num, thorough num)]
    "C01": [("LoopGen_sim.cfg", 2, 150, 3000)],
    "C04": [("LoopGen_sim.cfg", 2, 150, 3000)],
    "C05": [("LoopGen_sim.cfg", 2, 150, 3000)],
    "C08": [("LoopGen_faults_sim.cfg", 2, 200, 4000)],
    "C17": [],
    "C18": [],
}


def nontrivial(run):
    for b in run.get("batches", []) + run.get("pre", []):
        if len(b) >= 2 or any(st.get("op") == "fault" for st in b):
            return True
    return False


def split_runs(trace_path):
    """Index the records of a trace file by run id."""
    runs = {}
    cur = None
    with open(trace_path) as f:
        for ln, line in enumerate(f, 1):
            r = json.loads(line)
            if r["e"] == "reset":
                cur = r["run"]
                runs[cur] = []
            if cur is not None:
                runs[cur].append(r)
    return runs


def idleabs_inductive(work):
    """Apalache: IndInv of spec/IdleAbs.tla is an inductive invariant (two bounded checks of length 0 and 1)."""
    import shutil
    import subprocess
    d = work.path("apalache")
    os.makedirs(d, exist_ok=True)
    shutil.copy(os.path.join(C.SPEC, "IdleAbs.tla"), d)
    res = {}
    for name, args in (("init_implies_inv", ["--init=Init", "--inv=IndInv", "--length=0"]), ("inductive_step", ["--init=IndInit", "--inv=IndInv", "--length=1"])):
        try:
            r = subprocess.run(["apalache-mc", "check"] + args + ["IdleAbs.tla"], cwd=d, capture_output=True, text=True, timeout=600)
            out = r.stdout + r.stderr
            res[name] = "proved" if "EXITCODE: OK" in out else ("VIOLATED" if "violat" in out else "tool-error")
        except (subprocess.TimeoutExpired, OSError) as e:
            res[name] = f"not-run ({type(e).__name__})"
    if "VIOLATED" in res.values():
        raise C.ToolError("IdleAbs.tla: IndInv is not inductive (specification regression)")
    return res


def run_check(prop, tier, replay=None):
    t0 = time.time()
    seed = C.seed()
    work = C.Work(prop)
    try:
        return _run(prop, tier, replay, seed, work, t0)
    finally:
        work.cleanup()


def _run(prop, tier, replay, seed, work, t0):
    quick = tier == "quick"
    binpath, _ = C.build_harness()
    verdict = C.Verdict(prop)
    design = []
    selftests = []
    scheds = []
    apalache = None
    if replay:
        with open(replay) as f:
            rp = json.load(f)
        if "greet_case" in rp:
            # protocol-level connect case (C18)
            cp, tp = work.path("greet.ndjson"), work.path("greet_out.ndjson")
            with open(cp, "w") as f:
                f.write(json.dumps(rp["greet_case"]) + "\n")
            C.run([binpath, "wire", cp, tp], timeout=300)
            tuples, _, _, _ = C.tlc_trace("WireTrace", "WireTrace.cfg", tp, work, timeout=600)
            for t in tuples:
                if t[0] == "VIOL":
                    for p, msg, sig in t[3]:
                        if p == prop:
                            verdict.add(prop, msg, sig, {"run": None})
            return verdict.finish(lambda *a: replay)
        scheds = [rp["schedule"]]
    else:
        # ---- role 1: design check (exhaustive, small scope) on the model as coded
        qcfgs, tcfgs, muts = DESIGN[prop]
        for cfg in (qcfgs if quick else tcfgs):
            r = C.design_check(DESIGN_MODULE.get(cfg, "Loop"), cfg, work, workers=12 if quick else 14, timeout=600 if quick else 3600, xmx="10g")
            design.append(r)
        if prop == "C05":
            # ---- unbounded argument for the idle discipline on a sequence-free abstraction (IdleAbs.tla): TLC checks the invariant, and in the
            # thorough tier Apalache checks that it is INDUCTIVE (Init => IndInv, IndInv /\ Next => IndInv') - no bound on requests or changes.
            # Apalache is not on the critical path: a failure to RUN it is a note in the evidence, never a verdict (DESIGN.md 9, 12.7)
            design.append(C.design_check("IdleAbs", "IdleAbs.cfg", work, workers=2, timeout=120, coverage=False))
            if not quick:
                apalache = idleabs_inductive(work)
        # ---- vacuity guard: a seeded model mutant must trip the monitor it is aimed at
        for cfg, tag in muts:      # (all of them in both tiers: they are cheap, and the two tiers must not drift apart)
            r = C.tlc_model(cfg.split("_mut_")[0] if cfg.split("_mut_")[0] in ("Handshake", "AlbumArt") else "Loop", cfg, work, workers=4, timeout=200, coverage=False)
            # Inv_Final evaluates WFinal (C01/C08 end-of-session clauses) as a state predicate: its tag is not in the state
            # (likewise Inv_Iff of Handshake.tla: connect succeeds only on a valid greeting and an accepted password)
            hit = bool(r["violated"]) and (f'"{tag}"' in r["out"] or "Inv_Final" in r["violated"] or "Inv_Iff" in r["violated"] or "Inv_C17" in r["violated"])
            selftests.append({"cfg": cfg, "expected": tag, "tripped": hit})
            if not hit:
                raise C.ToolError(f"self-test {cfg} did not trip monitor {tag}: the monitors may be vacuous")
        # ---- role 2: schedules from the model (simulation) + seeded random schedules
        rid = 0
        for cfg, nc, qn, tn in GEN[prop]:
            r = C.tlc_model("LoopGen", cfg, work, workers=1, timeout=600, coverage=False, simulate=(f"num={qn if quick else tn}", 40, seed))
            if r["violated"] or r["error"]:
                raise C.ToolError(f"generator {cfg} failed")
            ss = tlcgen.maximal(tlcgen.parse_sched_lines(r["out"]))
            for s in ss:
                scheds.append(tlcgen.to_run(s, rid, nc, (seed * 7919 + rid * 104729) | 1))
                rid += 1
            design.append({"module": "LoopGen", "cfg": cfg, "generated_schedules": len(ss), "wall_s": r["wall_s"]})
        for prof, qn, tn in PROFILES[prop]:
            for s in S.generate(prof, qn if quick else tn, seed, start=rid):
                scheds.append(s)
                rid += 1
    # ---- role 3: replay into the real client, validate the recorded traces against the specification
    nshards = 1 if (quick or replay) else 10
    shards = [[] for _ in range(nshards)]
    for i, s in enumerate(scheds):
        shards[i % nshards].append(s)
    traces = []
    for k, sh in enumerate(shards):
        sp = work.path(f"sched{k}.ndjson")
        tp = work.path(f"trace{k}.ndjson")
        with open(sp, "w") as f:
            for s in sh:
                f.write(json.dumps(s) + "\n")
        C.run([binpath, "session", sp, tp], timeout=600)
        traces.append(tp)
    results = C.tlc_traces_parallel("SessionTrace", "SessionTrace.cfg", traces, work, jobs=nshards, timeout=1500)
    nevents = 0
    by_id = {s["run"]: s for s in scheds}
    tags = TAGS[prop]
    for tp, tuples, nstates in results:
        nevents += nstates - 1
        for t in tuples:
            if t[0] != "VIOL":
                continue
            _, run, line, vs = t
            for p, msg, sig in vs:
                if p == "HARNESS":
                    verdict.add("HARNESS", msg, sig, {"run": run, "line": line, "trace": tp})
                elif p in tags:
                    verdict.add(prop, (f"[{p}] " if p != prop else "") + msg, sig, {"run": run, "line": line, "trace": tp})

    # ---- hook-level binding of Loop.tla to the code (LoopTrace.tla): drift is a NOTE, never a verdict
    binding = {"enabled": False}
    if not replay and C.HOOKS_ON and prop in ("C01", "C04", "C05", "C08"):
        def plain(sc):
            cfg = sc.get("cfg", {})
            if any(k in cfg for k in ("max_read", "max_write", "pic", "password", "greeting", "lazy_events")) or cfg.get("callers", 1) > 3:
                return False
            return not any(st.get("kind") in ("art", "tlist", "tvec") or st.get("op") in ("wstall", "drop_events") for b in sc.get("batches", []) for st in b)
        keep = {sc["run"] for sc in scheds if plain(sc)}
        ltp = work.path("looptrace.ndjson")
        nruns = 0
        with open(ltp, "w") as out:
            for tp in traces:
                cur = False
                with open(tp) as f:
                    for line in f:
                        if line.startswith('{"auth"') or '"e":"reset"' in line:
                            rid = json.loads(line)["run"]
                            cur = rid in keep and nruns < (400 if quick else 6000)
                            nruns += 1 if cur else 0
                        if cur:
                            out.write(line)
        tuples, _, nst, _ = C.tlc_trace("LoopTrace", "LoopTrace.cfg", ltp, work, timeout=1500, xmx="4g")
        notes = [t for t in tuples if t[0] == "NOTE"]
        binding = {"enabled": True, "runs": nruns, "records": nst - 1, "drift_notes": len(notes), "samples": [str(t)[:300] for t in notes[:3]],
                   "meaning": "every hook event of the code took the Loop.tla action it names and the model predicted the observed world at every quiescent point" if not notes
                   else "the code no longer follows Loop.tla on these runs: the exhaustive model result is not transferable to this tree (property verdicts are unaffected)"}
        for t in notes[:5]:
            print("NOTE model-drift run=%s record=%s %s" % (t[2], t[3], str(t[4])[:200]))

    extra = {}
    if prop == "C18" and not replay:
        # protocol-level connects (both flavours) on greeting strings x segmentations, judged by WireTrace.tla
        import random as _r
        import wiregen as G
        rng = _r.Random(f"c18:{seed}")
        gcases = []
        greets = [list(x) for x in G.GREETINGS]
        for _ in range(60 if quick else 3000):
            gcases.append(G.mutate(rng, rng.choice(greets[:6])))
        for gb in greets + gcases:
            for fl in ("sync", "async"):
                variants = [[], G.rand_cuts(rng, len(gb), 2), G.rand_cuts(rng, len(gb), 4)]
                if len(gb) < 30:
                    variants += [[c] for c in range(1, len(gb))] if not quick else [list(range(1, len(gb)))]
                for cuts in variants:
                    extra[len(extra)] = {"id": len(extra), "stream": gb, "cuts": cuts, "flavour": fl, "pend": rng.random() < 0.3, "mode": "connect"}
        cp, tp = work.path("greet.ndjson"), work.path("greet_out.ndjson")
        with open(cp, "w") as f:
            for c in extra.values():
                f.write(json.dumps(c) + "\n")
        C.run([binpath, "wire", cp, tp], timeout=600)
        tuples, _, nst, _ = C.tlc_trace("WireTrace", "WireTrace.cfg", tp, work, timeout=1500)
        nevents += nst - 1
        for t in tuples:
            if t[0] == "VIOL":
                for p, msg, sig in t[3]:
                    if p == "C18":
                        verdict.add(prop, msg + " (protocol-level connect)", sig, {"run": None, "line": t[2], "trace": tp, "greet": t[1]})

    def write_replay(msg, sig, where):
        if where.get("greet") is not None:
            h = hashlib.sha1((msg + json.dumps(extra.get(where["greet"]), sort_keys=True)).encode()).hexdigest()[:12]
            path = os.path.join(C.replay_dir(), f"{prop}_{h}.json")
            with open(path, "w") as f:
                json.dump({"property": prop, "message": msg, "seed": seed, "greet_case": extra.get(where["greet"])}, f)
            return path
        runs = split_runs(where["trace"])
        h = hashlib.sha1((msg + json.dumps(by_id.get(where["run"]), sort_keys=True)).encode()).hexdigest()[:12]
        path = os.path.join(C.replay_dir(), f"{prop}_{h}.json")
        with open(path, "w") as f:
            json.dump({"property": prop, "message": msg, "signature": sig, "seed": seed, "trace_line": where["line"],
                       "schedule": by_id.get(where["run"]), "trace": runs.get(where["run"], [])}, f)
        return path

    code = verdict.finish(write_replay)
    if replay:
        return code
    # ---- evidence
    dstates = sum(r.get("states", 0) for r in design)
    dtrans = sum(r.get("transitions", 0) for r in design)
    acts = {}
    for r in design:
        for a, n in r.get("actions", {}).items():
            acts[a] = acts.get(a, 0) + n
    never = sorted(a for a, n in acts.items() if n == 0 and not a.startswith("LMut"))
    distinct = len({json.dumps(s["batches"], sort_keys=True) + json.dumps(s.get("pre")) for s in scheds if nontrivial(s)})
    sample = scheds[len(scheds) // 2] if scheds else None
    cov = {
        "states": dstates, "transitions": dtrans, "traces_validated_against_impl": len(scheds),
        "samples": [{"schedule": sample}],
        "evaluations": len(scheds), "distinct_nontrivial": distinct,
        "rule": "one evaluation = one environment schedule replayed into the real mpd_client::Client and validated by TLC against SessionTrace.tla; "
                "non-trivial = distinct schedules in which >= 2 environment steps were applied between two quiescent points or a fault was injected",
        "exhaustive": False,
        "design_checks": [{k: v for k, v in r.items() if k not in ("out", "actions")} for r in design],
        "design_actions_taken": acts, "design_actions_never_taken": never,
        "selftests": selftests,
        "trace_events_validated": nevents,
        "known_finding_hits": {k: len(v) for k, v in verdict.known_hits.items()},
        "protocol_level_connect_cases": len(extra),
        "hook_level_binding": binding,
        "model_scope": MODEL_SCOPE.get(prop, MODEL_SCOPE["loop"]),
    }
    if apalache is not None:
        cov["apalache_inductive_invariant"] = dict(apalache, module="IdleAbs.tla", invariant="IndInv (implies Safe: no command but noidle while the server waits in idle, one exchange outstanding)",
                                                   meaning="unbounded in the number of requests and changes; sequence-free abstraction of Loop.tla's blocking segments")
    assumptions = [
        "the MPD server rules in spec/World.tla (idle/noidle, command lists, ACK) are transcribed from the protocol reference; no MPD binary is available",
        "single-threaded tokio runtime with paused clock; the loop observes its environment only at polls (DESIGN.md 4.1)",
        "the exhaustive result holds for the model Loop.tla; the real code is bound to the property monitors by trace validation of the replays",
    ]
    C.write_evidence(prop, tier, "model_checking", cov, assumptions, time.time() - t0, len(verdict.violations))
    return code
