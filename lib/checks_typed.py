"""Typed-response checks: C12 (totality), C14 (song listings), C16 (status/stats/count/list/...), C13 (list framing + pairing)."""
import hashlib
import json
import os
import random
import time

import codecgen
import common as C
import typedgen as T

LISTING = ["Queue", "QueueRange", "CurrentSong", "Find", "GetPlaylist", "ListAllIn"]
OTHERS = [c for c in T.ALL_CMDS if c not in LISTING]
TAGS = {"C12": {"C12"}, "C14": {"C14"}, "C16": {"C16"}, "C13": {"C13"}}


def run_check(prop, tier, replay=None):
    t0 = time.time()
    work = C.Work(prop)
    try:
        return _run(prop, tier, replay, C.seed(), work, t0)
    finally:
        work.cleanup()


def build_cases(prop, quick, seed):
    rng = random.Random(f"typed:{prop}:{seed}")
    m = 1 if quick else 12
    if prop == "C12":
        cs = T.single_cases(rng, T.ALL_CMDS, 10 * m, 60 * m, 60 * m) + T.list_cases(rng, 4 * m)
    elif prop == "C14":
        cs = T.single_cases(rng, LISTING, 350 * m, 120 * m, 0)
    elif prop == "C16":
        cs = T.single_cases(rng, OTHERS, 130 * m, 60 * m, 0)
    else:  # C13 pairing
        cs = T.list_cases(rng, 12 * m)
    for i, c in enumerate(cs):
        c["id"] = i
    return cs


def _validate(binpath, sub, module, cfg, cases, work, tagset, verdict, prop, env=None, label=""):
    nshards = max(1, min(12, len(cases) // 1500))
    per = (len(cases) + nshards - 1) // nshards
    traces = []
    for k in range(nshards):
        blk = cases[k * per:(k + 1) * per]
        if not blk:
            continue
        cp, tp = work.path(f"cases{label}{k}.ndjson"), work.path(f"out{label}{k}.ndjson")
        with open(cp, "w") as f:
            for c in blk:
                f.write(json.dumps(c) + "\n")
        C.run([binpath, sub, cp, tp], timeout=900)
        traces.append(tp)
    n = 0
    for tp, tuples, ns in C.tlc_traces_parallel(module, cfg, traces, work, jobs=min(12, len(traces)), timeout=2400, env=env):
        n += ns - 1
        for t in tuples:
            if t[0] != "VIOL":
                continue
            _, cid, line, vs = t
            for p, msg, sig in vs:
                if p == "HARNESS":
                    verdict.add("HARNESS", msg, "", {"id": cid})
                elif p in tagset:
                    verdict.add(prop, msg + (f" [{sig}]" if sig else "") + (f" ({label})" if label else ""), "", {"id": cid, "line": line, "trace": tp, "label": label, "sub": sub})
    return n


def _run(prop, tier, replay, seed, work, t0):
    quick = tier == "quick"
    binpath, _ = C.build_harness()
    verdict = C.Verdict(prop)
    nrec = 0
    parts = {}
    if replay:
        with open(replay) as f:
            rp = json.load(f)
        cases = [rp["case"]]
        sub = rp.get("sub", "typed")
        if sub == "session":
            sp, tp = work.path("rp_sched.ndjson"), work.path("rp_trace.ndjson")
            with open(sp, "w") as f:
                f.write(json.dumps(rp["case"]["schedule"]) + "\n")
            C.run([binpath, "session", sp, tp], timeout=300)
            tuples, _, _, _ = C.tlc_trace("SessionTrace", "SessionTrace.cfg", tp, work, timeout=600)
            for t in tuples:
                if t[0] == "VIOL":
                    for p, msg, sig in t[3]:
                        if p == prop:
                            verdict.add(prop, msg, "", {"id": t[1]})
        elif sub == "codec":
            nrec += _validate(binpath, "codec", "CodecTrace", "CodecTrace.cfg", cases, work, TAGS[prop], verdict, prop)
        else:
            b = binpath
            if rp.get("label") == "chrono":
                b, _ = C.build_harness("chrono")
            nrec += _validate(b, "typed", "TypedTrace", "TypedTrace.cfg", cases, work, TAGS[prop], verdict, prop, env={"CHRONO": "1" if rp.get("label") == "chrono" else "0"}, label=rp.get("label", ""))
        return verdict.finish(lambda *a: replay)
    cases = build_cases(prop, quick, seed)
    all_cases = {("", c["id"]): c for c in cases}
    nrec += _validate(binpath, "typed", "TypedTrace", "TypedTrace.cfg", cases, work, TAGS[prop], verdict, prop, env={"CHRONO": "0"})
    parts["default_features"] = len(cases)
    if prop in ("C12", "C14", "C16"):
        # second build: the chrono feature changes Timestamp parsing (C12: "with and without the chrono feature")
        cbin, _ = C.build_harness("chrono")
        sub_cases = cases if prop == "C12" else cases[: len(cases) // 3]
        for c in sub_cases:
            all_cases[("chrono", c["id"])] = c
        nrec += _validate(cbin, "typed", "TypedTrace", "TypedTrace.cfg", sub_cases, work, TAGS[prop], verdict, prop, env={"CHRONO": "1"}, label="chrono")
        parts["chrono_feature"] = len(sub_cases)
    if prop == "C13":
        lc = codecgen.list_cases(quick, seed)
        for c in lc:
            all_cases[("framing", c["id"])] = c
        nrec += _validate(binpath, "codec", "CodecTrace", "CodecTrace.cfg", lc, work, TAGS[prop], verdict, prop, label="framing")
        parts["framing_cases"] = len(lc)

    if prop == "C13":
        # pairing through the real Client::command_list and the loop: typed tuples / vectors whose commands have distinguishable
        # replies (functions of their argument), concurrent callers and notifications; judged by SessionTrace (World.tla: TypedItem)
        import sched as S
        scs = S.generate("tlists", 250 if quick else 6000, seed)
        # (profile "fatlist" - one list of more than 2 MiB - exists in lib/sched.py but is NOT run: TLC tokenizes every request line of the trace with
        #  Tokenizer.tla and needs more than 30 minutes for 40 lines of 60 KB; seeded change C13-L is therefore not caught, see DESIGN.md 12.4 round 7)
        nsh = 1 if quick else 8
        straces = []
        for k in range(nsh):
            sp, tp = work.path(f"tl_sched{k}.ndjson"), work.path(f"tl_trace{k}.ndjson")
            with open(sp, "w") as f:
                for sc in scs[k::nsh]:
                    f.write(json.dumps(sc) + "\n")
            C.run([binpath, "session", sp, tp], timeout=900)
            straces.append(tp)
        ntl = 0
        for tp, tuples, ns in C.tlc_traces_parallel("SessionTrace", "SessionTrace.cfg", straces, work, jobs=nsh, timeout=2400):
            nrec += ns - 1
            ntl += sum(1 for l in open(tp) if '"t":"tl"' in l)
            for t in tuples:
                if t[0] != "VIOL":
                    continue
                for p, msg, sig in t[3]:
                    if p == "HARNESS":
                        verdict.add("HARNESS", msg, "", {"id": -1})
                    elif p == "C13":
                        sc = next((x for x in scs if x["run"] == t[1]), None)
                        all_cases[("session", t[1])] = {"schedule": sc}
                        verdict.add(prop, msg + " (through Client::command_list)", "", {"id": t[1], "line": t[2], "trace": tp, "label": "session", "sub": "session"})
        parts["typed_lists_through_client"] = ntl
        parts["session_runs"] = len(scs)

    def write_replay(msg, sig, where):
        c = all_cases.get((where.get("label", ""), where["id"]))
        h = hashlib.sha1((msg + json.dumps(c, sort_keys=True)).encode()).hexdigest()[:12]
        path = os.path.join(C.replay_dir(), f"{prop}_{h}.json")
        rec = None
        with open(where["trace"]) as f:
            for ln, line in enumerate(f, 1):
                if ln == where["line"]:
                    rec = json.loads(line)
        with open(path, "w") as f:
            json.dump({"property": prop, "message": msg, "seed": seed, "label": where.get("label", ""), "sub": where.get("sub", "typed"), "case": c, "record": rec}, f)
        return path

    code = verdict.finish(write_replay)
    total = sum(parts.values())
    distinct = len({json.dumps({k: v for k, v in c.items() if k != "id"}, sort_keys=True) for c in cases if c.get("frame", {}).get("fields") or c.get("frames")})
    rule = {
        "C12": "cases = every predefined command with a typed response x replies in its own shape with boundary / out-of-domain values, replies of other shapes (off-shape key and value pools), optional payload; "
               "typed lists of tuple arity 1..8 and vectors with matching and mismatching frame counts; both feature sets; non-trivial = distinct cases with at least one line or frame",
        "C14": "cases = listings of 0..3 entries (file / directory / playlist with own Last-Modified) with random subsets, orders and repetitions of attribute and tag lines, Time vs duration in either order, "
               "boundary values; through Queue, QueueRange, CurrentSong, Find, GetPlaylist, ListAllIn; non-trivial = distinct non-empty listings",
        "C16": "cases = replies to status (random optional-field subsets, shuffled order, every enum spelling, boundary numbers), stats, count (plain / grouped with repeated keys), list (plain / grouped by 1-2 tags), "
               "listplaylists, sticker get/list/find (values with '='), channels, messages, tag types, update / rescan, replay gain, addid, album art; non-trivial = distinct non-empty replies",
        "C13": "cases = typed lists: tuples of arity 1..8 over four command kinds with distinguishable replies (sticker get, update, addid, channels) and vectors of 0..9 commands, frame i built for command i; "
               "plus framing of raw lists of 0..9, 50, 200 commands via add / command / extend; non-trivial = distinct cases with >= 1 frame",
    }[prop]
    smp = [c for c in cases if c.get("frame", {}).get("fields") or c.get("frames")]
    cov = {"states": nrec + 1, "transitions": nrec, "traces_validated_against_impl": total, "samples": [smp[len(smp) // 2]] if smp else [cases[0]],
           "evaluations": total, "distinct_nontrivial": distinct, "rule": rule, "exhaustive": False, "parts": parts,
           "explanation": "states = records evaluated by TLC; each record is one reply pushed through the real parser and converted by the real Command::response / CommandList::responses; "
                          "TLC computes the meaning of the recorded lines with spec/Typed.tla (ok / err / unspecified) and compares with the projected typed value"}
    assumptions = ["spec/Typed.tla is written from the MPD protocol reference; it is the trusted reading of what a reply means",
                   "durations are compared with a tolerance of 1 microsecond (the typed layer parses seconds through f64); integer parts are limited to 7 digits in the certain domain",
                   "Status.volume / playlist / playlistlength / xfade / single take the documented defaults when the server omits the field (they are not Options in the API)",
                   "replies are restricted to field names the protocol layer accepts ([A-Za-z_-]+): other names never reach the typed layer (they are InvalidMessage, C09)"]
    level = "model_checking"
    C.write_evidence(prop, tier, level, cov, assumptions, time.time() - t0, len(verdict.violations))
    return code
