"""Case enumeration for the request-encoding checks (C06, C07, framing part of C13)."""
import itertools
import random

A, SP, TAB, CR, C1, DQ, SQ, BS, NUL = [97], [32], [9], [13], [1], [34], [39], [92], [0]
EAC = [195, 169]  # e-acute
UUM = [195, 188]  # u-umlaut
LF = [10]
SYMS = [A, SP, TAB, CR, C1, DQ, SQ, BS, NUL, EAC, UUM]
# non-ASCII characters of 2, 3 and 4 bytes, among them code points whose LOW BYTE equals a byte that is special to either side
# (U+0122 -> 0x22 ", U+0127 -> 0x27 ', U+015C -> 0x5C \, U+0120 -> 0x20 blank, U+010A -> 0x0A LF, U+0100 -> NUL, U+2122, U+5927, U+4E0A, U+1F3B5)
COLLIDERS = [list(ch.encode()) for ch in "\u0122\u0127\u015c\u0120\u010a\u0100\u0109\u2122\u5927\u4e0a\u2022\U0001f3b5\u00a0\u2028"]
STR_TYPES = ["str", "string", "cow", "cowb"]


def strings(maxlen, syms=SYMS):
    for n in range(0, maxlen + 1):
        for t in itertools.product(syms, repeat=n):
            yield [b for s in t for b in s]


def c06_cases(quick, seed):
    rng = random.Random(f"c06:{seed}")
    cases = []

    def add(name, args):
        cases.append({"id": len(cases), "kind": "cmd", "name": list(name), "args": [{"ty": STR_TYPES[(len(cases) + k) % 4], "v": a} for k, a in enumerate(args)]})

    for s in strings(4 if quick else 5):
        add(b"cmd", [s])
    two = list(strings(2 if quick else 2))
    for a in two:
        for b in two:
            add(b"x", [a, b])
    one = list(strings(1))
    if True:
        for a in one:
            for b in one:
                for c in one:
                    add(b"abc", [a, b, c])
    # non-ASCII characters with colliding low bytes: alone, doubled, next to a blank / a plain letter, in pairs of arguments
    for c in COLLIDERS:
        for arg in (c, c + c, [97] + c, c + [97], c + [32], [32] + c, c + [34], [9] + c + [97]):
            add(b"cmd", [arg])
        add(b"x", [c, [97]])
        add(b"x", [[97, 32, 98], c])
    # long arguments around internal size thresholds, a special byte at the first / middle / last position or exactly on the threshold
    for ln in ((64, 256, 1024, 4096) if quick else (63, 64, 65, 127, 128, 129, 255, 256, 257, 1023, 1024, 1025, 4095, 4096, 4097)):
        for sp in ([], SP, DQ, BS, SQ, EAC, C1):
            for pos in (0, ln // 2, ln - 1):
                arg = [97] * ln
                arg[pos:pos + 1] = sp if sp else [97]
                add(b"cmd", [arg])
                add(b"find", [[97], arg, [98, 32, 99]])
    # many arguments: a special one at a late position
    for n in (16, 33, 64, 100):
        for sp in (SP, DQ, BS, []):
            args = [[97 + (i % 26)] for i in range(n)]
            args[n - 1] = [120] + sp + [121]
            args[n // 2] = sp + [122]
            add(b"cmd", args)
    # accepted names of length <= 3 over {a, Z, _} (and digits, which the builder may or may not take)
    for n in range(1, 4):
        for t in itertools.product([97, 90, 95, 48], repeat=n):
            add(bytes(t), [[97]])
    # random: long arguments, up to 15 arguments
    for _ in range(1500 if quick else 30000):
        nargs = rng.choice([1, 1, 2, 3, 5, 15])
        args = []
        for _ in range(nargs):
            ln = rng.choice([0, 1, 2, 5, 12, 40])
            args.append([b for _ in range(ln) for b in rng.choice(SYMS + COLLIDERS[:6] + [A, A, A, [rng.randrange(33, 127)], list(chr(rng.choice([rng.randrange(0x80, 0x800), rng.randrange(0x800, 0xD800), rng.randrange(0x10000, 0x10FFFF)])).encode())])])
        add(rng.choice([b"cmd", b"find", b"sticker", b"a_b"]), args)
    return cases


NAME_SYMS = [[97], [95], [48], [32], [10], [9], [34], [195, 169], [1], [90]]
WHOLE = [b"command_list_begin", b"command_list_ok_begin", b"command_list_end", b"command_list", b"command_list_endx", b"Command_List_End", b"command_list_ok_begi",
         b"COMMAND_LIST_END", b"idle", b"noidle", b"status", b"a" * 300, b"", b"command_list_ok_begin ", b"xcommand_list_end", b"play1", b"1play", b"pl-ay", b"pl.ay"]
ARG_POOL = [[97, 98], [10, 97], [97, 10, 98], [97, 10], [10], [], [97, 32, 98], [10, 10], [34, 10, 34], [13, 10]]
RENDERERS = ["str", "string", "cow", "raw", "u64", "bool", "dur", "usize", "u8"]


def c07_cases(quick, seed):
    rng = random.Random(f"c07:{seed}")
    cases = []

    def add(name, args):
        cases.append({"id": len(cases), "kind": "cmd", "name": list(name), "args": args})

    for n in range(0, 4 if quick else 5):
        for t in itertools.product(NAME_SYMS, repeat=n):
            add([b for s in t for b in s], [{"ty": "str", "v": [97]}])
    for w in WHOLE:
        add(w, [{"ty": "str", "v": [97]}])
        add(w, [])
    for c in COLLIDERS:
        add([97] + c, [{"ty": "str", "v": [97]}])
        add(c, [])
        for ty in ("str", "string", "cow", "raw"):
            add(b"cmd", [{"ty": ty, "v": c}, {"ty": ty, "v": [97] + c + [98]}])

    def arg(rng_choice=None):
        ty = rng.choice(RENDERERS) if rng_choice is None else rng_choice
        if ty in ("u64", "bool", "dur", "usize", "u8"):
            return {"ty": ty, "v": [], "n": rng.choice([0, 1, 7, 255, 1000, 2 ** 53])}
        return {"ty": ty, "v": rng.choice(ARG_POOL)}

    # all sequences of <= 2 (quick) / 3 (thorough) args over pool x string-ish renderers
    pool = [{"ty": ty, "v": v} for ty in ("str", "raw") for v in ARG_POOL]
    for n in range(1, 4):
        for t in itertools.product(pool, repeat=n):
            if n == 3 and rng.random() > (0.15 if quick else 1.0):
                continue
            add(b"cmd", list(t))
    for _ in range(500 if quick else 10000):
        add(rng.choice([b"cmd", b"x"]), [arg() for _ in range(rng.randint(1, 4))])
    # a line feed / NUL at EVERY offset 0 .. 70 of an otherwise plain argument (word-at-a-time scans, block boundaries), with and
    # without characters before it that are escaped or take several bytes, through every string-ish renderer
    for bad in (10, 0):
        for off in range(0, 71):
            for k, pre in enumerate(([97] * off, [97] * max(0, off - 2) + [34] + [97] * min(off, 1), [195, 169] * (off // 2) + [97] * (off % 2))):
                v = (pre + [bad] + [107, 105, 108, 108])
                add(b"cmd", [{"ty": ("str", "raw", "string", "cow")[(off + k) % 4], "v": v}])
            add(b"cmd", [{"ty": "str", "v": [97]}, {"ty": "raw", "v": [120] * off + [bad]}, {"ty": "str", "v": [98]}])
    # typed arguments that render themselves (mpd_client's Tag): a hand-built catch-all tag may hold a line feed
    for ty in ("tag", "tagref"):
        for v in (b"Artist", b"a\nb", b"\nkill", b"x\n", b"a\x00b", b"Artist\ncommand_list_end", b"\n"):
            add(b"tagtypes", [{"ty": "str", "v": list(b"enable")}, {"ty": ty, "v": list(v)}])
            add(b"cmd", [{"ty": ty, "v": list(v)}, {"ty": "str", "v": [97]}])
    # raw renderer with arbitrary bytes
    for _ in range(200 if quick else 4000):
        v = [rng.choice([10, 0, 34, 92, 32, 97, 255, 13]) for _ in range(rng.randint(0, 6))]
        add(b"cmd", [{"ty": "raw", "v": v}, {"ty": "str", "v": [97]}])
    return cases


def list_cases(quick, seed):
    rng = random.Random(f"c13:{seed}")
    cases = []
    for n in range(0, 10):
        for path in ("add", "command", "extend"):
            for rep in range(1 if quick else 4):
                cmds = []
                for j in range(n):
                    args = [{"ty": "str", "v": rng.choice([[97], [97, 32, 98], [], [34], [195, 169]])} for _ in range(rng.randint(0, 3))]
                    cmds.append({"id": j, "kind": "cmd", "name": list(rng.choice([b"foo", b"bar", b"status", b"x_y"])), "args": args})
                cases.append({"id": len(cases), "kind": "list", "path": path, "cmds": cmds})
    for n in (50, 200):
        cases.append({"id": len(cases), "kind": "list", "path": "extend", "cmds": [{"id": j, "kind": "cmd", "name": list(b"ping"), "args": []} for j in range(n)]})
    return cases


# ---------------------------------------------------------------- filters (C11)
KNOWN_TAGS = [b"Artist", b"ArtistSort", b"Album", b"AlbumSort", b"AlbumArtist", b"AlbumArtistSort", b"Title", b"Track", b"Name", b"Genre", b"Date", b"OriginalDate",
              b"Composer", b"ComposerSort", b"Performer", b"Conductor", b"Work", b"Ensemble", b"Movement", b"MovementNumber", b"Location", b"Grouping", b"Comment", b"Disc", b"Label",
              b"MUSICBRAINZ_ARTISTID", b"MUSICBRAINZ_ALBUMID", b"MUSICBRAINZ_ALBUMARTISTID", b"MUSICBRAINZ_TRACKID", b"MUSICBRAINZ_RELEASETRACKID", b"MUSICBRAINZ_WORKID"]
TAGS = [b"Artist", b"Album", b"any", b"MUSICBRAINZ_ALBUMID", b"file", b"albumartist", b"x-custom"] + KNOWN_TAGS
OPS = [b"==", b"!=", b"contains", b"=~", b"!~"]
FVAL_SYMS = [[97], [32], [34], [39], [92], [40], [41], [195, 169]]
# control characters are ordinary value bytes inside the quoted expression: TAB, CR, 0x01, DEL, U+0085 (a C1 control), U+200B
FVAL_CTL = [[9], [13], [1], [127], [194, 133], [226, 128, 139], [11], [12], [27]]
FWORDS = [list(b"AND"), [], list(b"(a == \"b\")"), list(b" AND "), list(b"a) AND (b"), list(b"!("), list(b"\\\""), list(b"it's"), list(b"x\\y")]


def fvalues(maxlen):
    for s in strings(maxlen, FVAL_SYMS):
        yield s
    for w in FWORDS:
        yield w
    for c in COLLIDERS + FVAL_CTL:
        yield c
        yield [97] + c + [32, 98]
    for c in FVAL_CTL:
        yield c + [97]
        yield [97, 98] + c
        yield c + c


def leaf(rng, v, i=0):
    k = i % 8
    tag = list(TAGS[(i // 8 + i) % len(TAGS)])
    if k == 5:
        return {"k": "tag", "ctor": "exists", "tag": tag, "op": list(b"!="), "v": []}
    if k == 6:
        return {"k": "tag", "ctor": "absent", "tag": tag, "op": list(b"=="), "v": []}
    if k == 7:
        return {"k": "tag", "ctor": "tag", "tag": tag, "op": list(b"=="), "v": v}
    return {"k": "tag", "ctor": "new", "tag": tag, "op": list(OPS[k % 5]), "v": v}


def rand_tree(rng, vals, depth):
    x = rng.random()
    if depth == 0 or x < 0.4:
        return leaf(rng, rng.choice(vals), rng.randrange(1000))
    if x < 0.6:
        return {"k": "not", "bang": rng.random() < 0.5, "e": rand_tree(rng, vals, depth - 1)}
    n = rng.choice([2, 2, 3, 4])
    return {"k": "and", "rassoc": rng.random() < 0.4, "es": [rand_tree(rng, vals, depth - 1) for _ in range(n)]}


def c11_cases(quick, seed):
    rng = random.Random(f"c11:{seed}")
    cases = []
    cmds = ["find", "count", "list", "countg"]

    def add(tree):
        cases.append({"id": len(cases), "cmd": cmds[len(cases) % 4], "tree": tree})

    vals = list(fvalues(3 if quick else 4))
    # every value in every leaf kind / operator
    for i, v in enumerate(vals):
        for k in range(8 if not quick else 2):
            add(leaf(rng, v, i * 8 + k if not quick else i + 5 * k))
    # every operator x constructor x tag (all documented tag names) with a plain value
    for i in range(8 * len(TAGS)):
        add(leaf(rng, [97, 32, 98], i))
    small = list(fvalues(1))
    # structure: NOT, AND of 2..3, nested, with all small values
    for v in small:
        l1, l2, l3 = leaf(rng, v, 0), leaf(rng, v, 1), leaf(rng, [97], 2)
        add({"k": "not", "bang": False, "e": l1})
        add({"k": "not", "bang": True, "e": {"k": "not", "bang": False, "e": l1}})
        add({"k": "and", "es": [l1, l2]})
        add({"k": "and", "es": [l1, l2, l3]})
        add({"k": "and", "rassoc": True, "es": [l1, l2, l3]})
        add({"k": "and", "es": [{"k": "and", "es": [l1, l2]}, {"k": "and", "es": [l3, l1]}]})
        add({"k": "not", "e": {"k": "and", "es": [l1, {"k": "not", "e": l2}]}})
        add({"k": "and", "es": [{"k": "not", "e": {"k": "and", "es": [l1, l2]}}, l3]})
    for _ in range(1500 if quick else 30000):
        add(rand_tree(rng, vals, 3))

    # a filter (or a part of it) that was already rendered or cloned once and is then negated / combined further
    def mark(t):
        if rng.random() < 0.5:
            t["pre"] = rng.choice(["render", "clone", "clone_after"])
        for e in ([t["e"]] if t["k"] == "not" else t.get("es", [])):
            mark(e)
        return t

    for v in small[:4]:
        l1, l2 = leaf(rng, v, 0), leaf(rng, [97], 2)
        for pre in ("render", "clone", "clone_after"):
            add({"k": "not", "bang": False, "e": dict(l1, pre=pre)})
            add({"k": "not", "bang": True, "e": dict(l1, pre=pre)})
            add({"k": "and", "es": [dict(l1, pre=pre), l2]})
            add({"k": "and", "es": [l2, dict(l1, pre=pre)]})
            add({"k": "not", "e": {"k": "and", "pre": pre, "es": [l1, l2]}})
            add({"k": "and", "es": [{"k": "and", "pre": pre, "es": [l1, l2]}, l2]})
    for _ in range(400 if quick else 8000):
        add(mark(rand_tree(rng, vals, 3)))
    return cases
