"""Request-encoding checks (C06 C07 C11 C13-framing C15): cases enumerated over class alphabets / parameter pools,
built through the public API by the harness, bytes judged by TLC with the specification's model of the PEER
(MPD's request tokenizer, filter grammar, command table)."""
import hashlib
import json
import os
import time

import cmdsgen
import codecgen
import common as C

PLAN = {
    # property: [(harness subcommand, case generator, TLC module, cfg)]
    "C06": [("codec", codecgen.c06_cases, "CodecTrace", "CodecTrace.cfg")],
    "C07": [("codec", codecgen.c07_cases, "CodecTrace", "CodecTrace.cfg"), ("codec", codecgen.list_cases, "CodecTrace", "CodecTrace.cfg")],
    "C11": [("filter", codecgen.c11_cases, "CodecTrace", "CodecTrace.cfg")],
    "C15": [("cmds", cmdsgen.cases, "CmdsTrace", "CmdsTrace.cfg")],
}
ENCODER_DESIGN = {
    # property: (quick configs, thorough configs, model mutants that must violate)
    "C06": (["Encoder_ascoded_q.cfg", "Encoder_ideal_q.cfg"], ["Encoder_ascoded.cfg", "Encoder_ideal.cfg"], ["Encoder_mut_c06.cfg"]),
    "C07": (["Encoder_ascoded_q.cfg"], ["Encoder_ascoded.cfg"], []),
    "C11": (["Encoder_ascoded_q.cfg", "Encoder_ideal_q.cfg"], ["Encoder_ascoded.cfg", "Encoder_ideal.cfg"], ["Encoder_mut_c11.cfg"]),
}
ENCODER_SCOPE = ("EncoderMC.tla exhaustive: Command::build over all names of length <= 3 over {a, Z, _, 0, blank, LF, \", 200, 0x01} + framing look-alikes; up to 3 add_argument calls "
                 "(string arguments through escape_argument, user-defined renderers emitting arbitrary bytes) with summed length <= 3 (quick) / 4 (thorough) over "
                 "{a, blank, TAB, 0x01, LF, NUL, \", ', \\, 200}; filter construction histories (leaf with every operator, negate, and-left, and-right, and-not-self) up to 5 / 6 nodes, values of "
                 "length <= 2 / 3 over {a, blank, \", ', \\, (, ), 200} + look-alikes; invariants: round trip through MPD's tokenizer (and filter grammar) except exactly the known causes "
                 "(signature exactness), one line per command, rollback after rejection, names readable by NextWord, list framing; ideal-encoder configs hold strictly")
TAGS = {"C06": {"C06", "PANIC"}, "C07": {"C07", "PANIC"}, "C11": {"C11", "PANIC"}, "C15": {"C15"}}

RULES = {
    "C06": "cases = command lines with 1..3 string arguments over the class alphabet {a, SP, TAB, CR, 0x01, \", ', \\, NUL, e-acute, u-umlaut} (all strings of length <= 3/4, all pairs of length <= 1/2, triples), "
           "all builder-accepted names of length <= 3, plus seeded long ones; non-trivial = distinct cases with at least one argument that needs quoting or escaping",
    "C07": "cases = all names of length <= 2/3 over {a, _, 0, SP, LF, TAB, \", e-acute, 0x01, Z} plus framing-word look-alikes; all sequences of <= 2/3 add_argument calls over arguments with LF first/middle/last/only x {str, raw renderer}; "
           "seeded mixes of all Argument types; lists of 0..9 commands via add/command/extend; non-trivial = distinct cases containing a byte outside [A-Za-z0-9_] in the name or a LF in an argument",
    "C11": "cases = every value string of length <= 2/3 over {a, SP, \", ', \\, (, ), e-acute} plus words (AND, empty, parenthesised look-alikes) in every leaf kind; NOT / AND / nested structures; seeded random trees of depth <= 3; "
           "non-trivial = distinct trees with a non-plain value or depth >= 2",
    "C15": "cases = every constructor/builder path of the table x boundary pools (0,1,2,MAX-1,MAX,...; every bound-kind pair incl. inverted and empty ranges; sub-millisecond durations; all enum variants; strings with blanks) "
           "one dimension at a time plus seeded combinations; non-trivial = distinct cases whose parameters are not all at their base value",
}


def nontrivial(prop, c):
    if prop == "C06":
        return any(any(b in (32, 9, 13, 1, 34, 39, 92, 0) or b > 127 for b in a["v"]) or not a["v"] for a in c.get("args", []))
    if prop == "C07":
        if c.get("kind") == "list":
            return len(c["cmds"]) != 1
        nm = c.get("name", [])
        return any(not (chr(b).isalnum() or b == 95) for b in nm if b < 128) or any(b > 127 for b in nm) or any(10 in a.get("v", []) for a in c.get("args", []))
    if prop == "C11":
        def walk(t, d):
            if t["k"] == "tag":
                return d >= 2 or any(b in (32, 34, 39, 92, 40, 41) or b > 127 for b in t["v"]) or not t["v"]
            if t["k"] == "not":
                return walk(t["e"], d + 1)
            return any(walk(e, d + 1) for e in t["es"])
        return walk(c["tree"], 0)
    return True


def run_check(prop, tier, replay=None):
    t0 = time.time()
    work = C.Work(prop)
    try:
        return _run(prop, tier, replay, C.seed(), work, t0)
    finally:
        work.cleanup()


def _run(prop, tier, replay, seed, work, t0):
    quick = tier == "quick"
    binpath, _ = C.build_harness()
    verdict = C.Verdict(prop)
    total_cases = 0
    nstates = 0
    distinct = set()
    samples = []
    gaps = None
    all_cases = {}
    plan = PLAN[prop]
    design, selftests, drift, bound = [], [], [], 0
    if not replay and prop in ENCODER_DESIGN:
        # ---- role 1: the encoder as coded (Encoder.tla) composed with the peer's tokenizer / filter grammar, every builder and filter history
        # within the bounds (EncoderMC.tla): as coded the known causes are the ONLY failures and exactly the failures; the ideal encoder passes strictly
        for cfg in (ENCODER_DESIGN[prop][0] if quick else ENCODER_DESIGN[prop][1]):
            r = C.design_check("EncoderMC", cfg, work, workers=8 if quick else 12, timeout=300 if quick else 1500, xmx="8g", coverage=False)
            design.append({k: r.get(k) for k in ("module", "cfg", "states", "transitions", "depth", "wall_s")})
        # ---- vacuity guard: the strict invariant must FAIL on the encoder as coded (the model exhibits the known finding)
        for cfg in ENCODER_DESIGN[prop][2]:
            r = C.tlc_model("EncoderMC", cfg, work, workers=4, timeout=200, coverage=False)
            hit = bool(r["violated"])
            selftests.append({"cfg": cfg, "tripped": hit})
            if not hit:
                raise C.ToolError(f"self-test {cfg} did not trip its invariant: the encoder invariants may be vacuous")
    if replay:
        with open(replay) as f:
            rp = json.load(f)
        plan = [(rp["sub"], lambda q, s: [rp["case"]], rp["module"], rp["cfg"])]
    for pi, (sub, gen, module, cfg) in enumerate(plan):
        cases = gen(quick, seed)
        for c in cases:
            c["id"] = total_cases
            all_cases[total_cases] = (sub, module, cfg, c)
            total_cases += 1
            if not replay and nontrivial(prop, c):
                distinct.add(hashlib.sha1(json.dumps({k: v for k, v in c.items() if k != "id"}, sort_keys=True).encode()).hexdigest())
        if cases:
            samples.append(cases[len(cases) // 2])
        nshards = 1 if len(cases) < 6000 else 8
        per = (len(cases) + nshards - 1) // nshards
        traces = []
        for k in range(nshards):
            blk = cases[k * per:(k + 1) * per]
            if not blk:
                continue
            cp = work.path(f"cases{pi}_{k}.ndjson")
            tp = work.path(f"out{pi}_{k}.ndjson")
            with open(cp, "w") as f:
                for c in blk:
                    f.write(json.dumps(c) + "\n")
            C.run([binpath, sub, cp, tp], timeout=900)
            traces.append(tp)
        for tp, tuples, n in C.tlc_traces_parallel(module, cfg, traces, work, jobs=min(8, len(traces)), timeout=2400):
            nstates += n
            for t in tuples:
                if t[0] == "DRIFT":
                    drift.append({"id": t[1], "what": t[3]})
                if t[0] != "VIOL":
                    continue
                _, cid, line, vs = t
                for p, msg, sig in vs:
                    if p == "HARNESS":
                        verdict.add("HARNESS", msg, sig, {"id": cid})
                    elif p in TAGS[prop]:
                        verdict.add(prop, (f"[{p}] " if p != prop else "") + msg, sig, {"id": cid, "line": line, "trace": tp})
    if prop == "C15" and not replay:
        # coverage-gap report: commands of definitions.rs without a row in the table (never a failure)
        r = C.run([binpath, "cmds", "--scan"], timeout=60)
        defined = set(json.loads(r.stdout))
        with open(os.path.join(C.VERIF, "lib", "commands_types.json")) as f:
            covered = set(json.load(f).values())
        gaps = sorted(defined - covered)

    def write_replay(msg, sig, where):
        sub, module, cfg, c = all_cases[where["id"]]
        h = hashlib.sha1((msg + json.dumps(c, sort_keys=True)).encode()).hexdigest()[:12]
        path = os.path.join(C.replay_dir(), f"{prop}_{h}.json")
        rec = None
        with open(where["trace"]) as f:
            for ln, line in enumerate(f, 1):
                if ln == where["line"]:
                    rec = json.loads(line)
        with open(path, "w") as f:
            json.dump({"property": prop, "message": msg, "signature": sig, "seed": seed, "sub": sub, "module": module, "cfg": cfg, "case": c, "record": rec}, f)
        return path

    code = verdict.finish(write_replay)
    if replay:
        return code
    if prop in ENCODER_DESIGN:
        bound = sum(1 for (_, _, _, c) in all_cases.values() if "tree" in c or (c.get("kind") == "cmd" and all(a.get("ty") in ("str", "string", "cow", "cowb") and len(a.get("v", [])) <= 200 for a in c.get("args", []))))
        if drift:
            print(f"NOTE model-drift: the code's encoder no longer produces the bytes Encoder.tla predicts in {len(drift)} of {bound} bound cases (first: {json.dumps(drift[0])[:300]}); "
                  "the exhaustive EncoderMC result is not transferable to this tree; verdicts come from the peer model only")
    cov = {
        "states": nstates, "transitions": nstates, "traces_validated_against_impl": total_cases,
        "samples": samples[:2], "evaluations": total_cases, "distinct_nontrivial": len(distinct), "rule": RULES[prop],
        "exhaustive": True,
        "explanation": "states = records evaluated by TLC: each record is one command built by the real API; TLC applies the specification's model of MPD's tokenizer / filter grammar / command table to the recorded bytes. "
                       "The enumerated part of the case set is exhaustive over the stated class alphabet and lengths; the seeded part is not.",
        "known_finding_hits": {k: len(v) for k, v in verdict.known_hits.items()},
    }
    if prop in ENCODER_DESIGN:
        cov["design_checks"] = design
        cov["model_mutants_tripped"] = selftests
        cov["states"] += sum(d.get("states") or 0 for d in design)
        cov["transitions"] += sum(d.get("transitions") or 0 for d in design)
        cov["encoder_model_binding"] = {"cases_bound": bound, "drift": len(drift), "samples": drift[:3],
                                        "meaning": "Encoder.tla (as coded) predicts the builder's verdicts and the exact bytes of every bound case; 0 drift = the exhaustive EncoderMC result describes this code"}
        cov["model_scope"] = ENCODER_SCOPE
    if gaps is not None:
        cov["commands_in_definitions_rs_without_table_row"] = gaps
    assumptions = [
        "spec/Tokenizer.tla and spec/FilterGrammar.tla are transcribed from MPD's util/Tokenizer.cxx and song/Filter.cxx from knowledge (no MPD source or binary in the sandbox); they are the trusted base",
        "string arguments are valid UTF-8 (the API takes &str); at most 15 arguments per command (MPD's limit)",
    ]
    if prop == "C15":
        assumptions += ["durations restricted to < 2^32 s (f64 rendering of seconds loses sub-millisecond precision far beyond that)",
                        "string parameters are taken from a pool without unquoted quote/backslash characters: their byte fidelity is C06's business (F-C06-1)",
                        "documented panics are not exercised: Move::range with an open end, TagTypes::enable/disable with an empty list"]
    C.write_evidence(prop, tier, "model_checking", cov, assumptions, time.time() - t0, len(verdict.violations))
    return code
