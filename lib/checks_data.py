"""Data-structure checks: C19 (frames / responses as ordered collections) and C20 (tags / subsystems by name)."""
import hashlib
import itertools
import json
import os
import random
import subprocess
import time

import common as C
import wiregen as G


def run_check(prop, tier, replay=None):
    t0 = time.time()
    work = C.Work(prop)
    try:
        if prop == "C19":
            return _c19(tier, replay, C.seed(), work, t0)
        return _c20(tier, replay, C.seed(), work, t0)
    finally:
        work.cleanup()


def _validate(prop, module, cfg, binpath, sub, cases, work, verdict, one_file=False):
    nshards = 1 if (len(cases) < 8000 or one_file) else 10
    per = (len(cases) + nshards - 1) // nshards
    traces = []
    for k in range(nshards):
        blk = cases[k * per:(k + 1) * per]
        if not blk:
            continue
        cp, tp = work.path(f"cases{k}.ndjson"), work.path(f"out{k}.ndjson")
        with open(cp, "w") as f:
            for c in blk:
                f.write(json.dumps(c) + "\n")
        C.run([binpath, sub, cp, tp], timeout=900)
        traces.append(tp)
    n = 0
    for tp, tuples, ns in C.tlc_traces_parallel(module, cfg, traces, work, jobs=min(10, len(traces)), timeout=2400):
        n += ns - 1
        for t in tuples:
            if t[0] != "VIOL":
                continue
            _, cid, line, vs = t
            for p, msg, sig in vs:
                verdict.add(p, msg + (f" ({sig})" if sig and p != "HARNESS" else ""), "", {"id": cid, "line": line, "trace": tp})
    return n, traces


def _c19(tier, replay, seed, work, t0):
    prop = "C19"
    quick = tier == "quick"
    binpath, _ = C.build_harness()
    verdict = C.Verdict(prop)
    rng = random.Random(f"c19:{seed}")
    gen = None
    if replay:
        with open(replay) as f:
            cases = [json.load(f)["case"]]
    else:
        gen = C.tlc_model("FrameGen", "FrameGen_quick.cfg" if quick else "FrameGen_full.cfg", work, workers=1, timeout=900, coverage=False)
        if gen["error"] or not gen.get("states"):
            raise C.ToolError("FrameGen failed")
        cases = G.parse_cases(gen["out"])
        if len(cases) < 1000:
            raise C.ToolError("FrameGen produced too few cases")
        def omoves(n):
            mv = [rng.choice(["f", "b", "t", "f", "b", "n1", "n2"]) for _ in range(n)]
            return mv + (["l"] if rng.random() < 0.35 else [])      # last(): by value, ends the walk

        for c in cases:
            c["owned"] = omoves(rng.randint(0, 6))
        # long random operation sequences on large frames (model replay in TLC is still the judge)
        keys = [[97], [65], [98], [97, 98], [102, 105, 108, 101]]
        for _ in range(60 if quick else 1500):
            n = rng.choice([5, 8, 20, 60])
            # (values: distinct per position; some end in CR, contain CR / TAB or are empty - all ordinary value bytes)
            fields = [[rng.choice(keys), list(f"v{i}".encode()) + rng.choice([[], [], [], [13], [13, 13], [9], [13, 120]])] for i in range(n)]
            if rng.random() < 0.2:
                fields[rng.randrange(n)][1] = rng.choice([[], [13]])
            ops = []
            for _ in range(rng.randint(5, 40)):
                o = rng.choice(["find", "get", "get", "get", "take_binary", "fields_len", "is_empty", "has_binary", "binary", "iter"])
                ops.append({"op": o, "k": rng.choice(keys) if o in ("find", "get") else [], "moves": ([rng.choice(["f", "b", "f", "b", "n1", "n2"]) for _ in range(rng.randint(0, n + 2))] + (["l"] if rng.random() < 0.4 else ["f"])) if o == "iter" else []})
            cases.append({"frame": {"fields": fields, "bin": rng.choice([[], [[1, 2, 3, 10]]])}, "ops": ops, "owned": omoves(rng.randint(0, n + 2))})
        # responses: frames then error, next / next_back / size_hint interleavings
        for n in range(0, 4):
            for err in (False, True):
                if n == 0 and not err:
                    continue
                for ln in range(1, 6 if quick else 7):
                    for mv in itertools.product("nbs", repeat=ln):
                        if ln <= 3 or rng.random() < (0.15 if quick else 0.6):
                            cases.append({"kind": "resp", "nframes": n, "err": err, "moves": list(mv)})
                            if err and (ln <= 3 or rng.random() < 0.3):
                                # the failing command printed output before its ACK: still exactly n successful frames, then the error
                                cases.append({"kind": "resp", "nframes": n, "err": err, "partial": True, "moves": list(mv)})
        # positional access: nth / nth_back (what skip, step_by, ... are built on) mixed with the single steps
        for n in range(0, 5):
            for err in (False, True):
                if n == 0 and not err:
                    continue
                for _ in range(12 if quick else 120):
                    mv = [rng.choice(["n", "b", "s", "t1", "t2", "t3", "r1", "r2"]) for _ in range(rng.randint(1, 4))]
                    if any(len(m) == 2 for m in mv):
                        cases.append({"kind": "resp", "nframes": n, "err": err, "moves": mv})
        for i, c in enumerate(cases):
            c["id"] = i
    nrec, traces = _validate(prop, "FrameTrace", "FrameTrace.cfg", binpath, "frame", cases, work, verdict)
    # deep tier (F-C19-1): many consecutive removed fields; a stack overflow aborts the process -> child process
    deep = []
    if not replay:
        for n in ([30000] if quick else [30000, 100000]):  # removal by repeated get() is quadratic
            try:
                r = subprocess.run([binpath, "frame", "--deep", str(n)], capture_output=True, text=True, timeout=900)
            except subprocess.TimeoutExpired:
                raise C.ToolError(f"deep frame case n={n} timed out")
            if r.returncode != 0 or not r.stdout.strip():
                deep.append({"n": n, "outcome": "aborted", "rc": r.returncode})
                verdict.add(prop, f"iterating / counting a frame after removing {n} consecutive fields aborted the process (rc={r.returncode}): hole skipping must not recurse", "", {"id": -n, "deep": n})
            else:
                d = json.loads(r.stdout.strip().split("\n")[-1])
                ok = (not d.get("panicked")) and d["removed"] == n and d["fields_len"] == 1 and d["is_empty"] is False and d["first"] == "z=last" and d["last"] == "z=last" \
                    and d["found"] == "last" and d["owned_len"] == 1 and d["owned_back"] == "z=last"
                deep.append({"n": n, "outcome": "ok" if ok else "wrong", "record": d})
                if not ok:
                    verdict.add(prop, f"frame of {n} removed fields: length / iteration / lookup disagree", "", {"id": -n, "deep": n})
    by_id = {c["id"]: c for c in cases}

    def write_replay(msg, sig, where):
        c = by_id.get(where["id"], {"deep": where.get("deep")})
        h = hashlib.sha1((msg + json.dumps(c, sort_keys=True)).encode()).hexdigest()[:12]
        path = os.path.join(C.replay_dir(), f"{prop}_{h}.json")
        with open(path, "w") as f:
            json.dump({"property": prop, "message": msg, "seed": seed, "case": c}, f)
        return path

    code = verdict.finish(write_replay)
    if replay:
        return code
    nfr = sum(1 for c in cases if c.get("kind") != "resp")
    cov = {"states": gen["states"], "transitions": gen["transitions"], "traces_validated_against_impl": len(cases),
           "samples": [cases[len(cases) // 3], cases[-1]], "evaluations": len(cases),
           "distinct_nontrivial": len({json.dumps({k: v for k, v in c.items() if k != "id"}, sort_keys=True) for c in cases if len(c.get("ops", c.get("moves", []))) >= 2}),
           "rule": "FrameGen.tla explores the abstract frame (ordered multimap + optional payload) under all operations; one witness operation path per explored transition becomes an implementation test of the real Frame "
                   "(built by the real parser); TLC replays each recorded operation through Frame.tla and compares results step by step; non-trivial = distinct cases with >= 2 operations / iterator moves",
           "exhaustive": True,
           "model_scope": f"all frames of <= {3 if quick else 4} fields over keys {{a, A, b}} with/without payload x all operation sequences of length <= {3 if quick else 6} "
                          "(find, get, take_binary, fields_len, is_empty, has_binary, binary, 5 next/next_back patterns); responses of 0..3 frames +- error x next/next_back/size_hint interleavings",
           "frame_cases": nfr, "response_cases": len(cases) - nfr, "records_validated": nrec, "deep_cases": deep}
    C.write_evidence(prop, tier, "model_checking", cov,
                     ["frames can only be built by pushing bytes through the real parser (no public constructor); keys are restricted to what the parser accepts",
                      "the deep case runs on a 2 MiB stack thread (tokio worker / test thread size) in a child process; its expected values are trivial and checked by the driver"],
                     time.time() - t0, len(verdict.violations))
    return code


def _c20(tier, replay, seed, work, t0):
    prop = "C20"
    quick = tier == "quick"
    binpath, _ = C.build_harness()
    verdict = C.Verdict(prop)
    gen = C.tlc_model("NamesGen", "NamesGen.cfg", work, workers=1, timeout=300, coverage=False)
    cs = G.parse_cases(gen["out"])
    if not cs:
        raise C.ToolError("NamesGen produced nothing")
    case = cs[0]
    # candidates with ONE character outside ASCII whose code point's low byte runs through all 256 values (among them
    # letters, `_`, `-`), from the 2-, 3- and 4-byte ranges: a field name cannot carry any of them
    for b in range(256):
        for base in (0x100, 0x400, 0x2000, 0x1F300):
            ch = chr(base + b).encode()
            case["tag_strings"].append(list(b"Compo" + ch + b"er"))
            if b % 16 == 1:
                case["tag_strings"].append(list(ch))
    case["pair_limit"] = 40000 if quick else 10 ** 9
    cp, tp = work.path("names.json"), work.path("names.ndjson")
    with open(cp, "w") as f:
        json.dump(case, f)
    C.run([binpath, "names", cp, tp], timeout=900)
    # shard the record file for parallel validation
    with open(tp) as f:
        lines = f.readlines()
    nsh = 1 if len(lines) < 60000 else 10
    per = (len(lines) + nsh - 1) // nsh
    traces = []
    for k in range(nsh):
        p = work.path(f"rec{k}.ndjson")
        with open(p, "w") as f:
            f.writelines(lines[k * per:(k + 1) * per])
        traces.append(p)
    nrec = 0
    recs = {}
    for tpath, tuples, ns in C.tlc_traces_parallel("NamesTrace", "NamesTrace.cfg", traces, work, jobs=nsh, timeout=2400):
        nrec += ns - 1
        for t in tuples:
            if t[0] != "VIOL":
                continue
            _, cid, line, vs = t
            for p, msg, sig in vs:
                verdict.add(p, msg, "", {"id": cid, "line": line, "trace": tpath})

    # every subsystem name the server can report maps to a value whose protocol name is that name: the mapping from a
    # reply line to a Subsystem is private (from_frame), so it is observed through the real client: one session in which
    # the server reports every documented name (and unknown ones), singly and in groups; judged by SessionTrace's C04 monitor
    names = ["database", "update", "stored_playlist", "playlist", "player", "mixer", "output", "options", "partition", "sticker", "subscription", "message", "neighbor", "mount",
             "zzfuture", "Player", "stored-playlist", "x"]
    batches = []
    for i, nm in enumerate(names):
        batches += [[{"op": "change", "subs": [nm]}], [{"op": "deliver"}]]
    for i in range(0, len(names), 3):
        batches += [[{"op": "change", "subs": names[i:i + 3]}], [{"op": "deliver"}]]
    sp, stp = work.path("subs_sched.ndjson"), work.path("subs_trace.ndjson")
    with open(sp, "w") as f:
        f.write(json.dumps({"run": 0, "cfg": {"callers": 1}, "batches": batches}) + "\n")
    C.run([binpath, "session", sp, stp], timeout=300)
    stuples, _, sn, _ = C.tlc_trace("SessionTrace", "SessionTrace.cfg", stp, work, timeout=600)
    nrec += sn - 1
    nevents = sum(1 for l in open(stp) if '"e":"event"' in l)
    for t in stuples:
        if t[0] == "VIOL":
            for p, msg, sig in t[3]:
                if p == "C04" and sig != "F-C04-2":
                    verdict.add(prop, "a subsystem name reported by the server did not arrive as an event carrying exactly that protocol name (" + msg + ")", "", {"id": -1, "line": t[2], "trace": stp})
                elif p == "HARNESS":
                    verdict.add("HARNESS", msg, "", {"id": -1})

    def write_replay(msg, sig, where):
        rec = None
        with open(where["trace"]) as f:
            for ln, line in enumerate(f, 1):
                if ln == where["line"]:
                    rec = json.loads(line)
        h = hashlib.sha1((msg + json.dumps(rec, sort_keys=True)).encode()).hexdigest()[:12]
        path = os.path.join(C.replay_dir(), f"{prop}_{h}.json")
        with open(path, "w") as f:
            json.dump({"property": prop, "message": msg, "seed": seed, "record": rec}, f)
        return path

    code = verdict.finish(write_replay)
    kinds = {}
    for l in lines:
        e = json.loads(l)["e"]
        kinds[e] = kinds.get(e, 0) + 1
    smp = [json.loads(lines[len(lines) // 2]), json.loads(lines[3])]
    cov = {"states": nrec + 1, "transitions": nrec, "traces_validated_against_impl": nrec, "samples": smp, "evaluations": nrec, "distinct_nontrivial": nrec - kinds.get("variants", 0),
           "rule": "NamesGen.tla enumerates the candidate strings (every documented tag name in canonical/lower/upper/mixed case, all strings of length <= 3 over {a, Z, _, -, 0, SP, e-acute}, catch-all contents); "
                   "the harness parses every candidate and compares every pair of values (named, parsed, catch-all); every record is distinct by construction; TLC judges each against Names.tla",
           "exhaustive": not quick, "records_by_kind": kinds, "subsystem_events_through_real_client": nevents,
           "explanation": "finite domain; thorough enumerates every pair, quick a deterministic stride of the pairs"}
    C.write_evidence(prop, tier, "model_checking", cov,
                     ["the tag / subsystem name tables in spec/Names.tla are copied from the MPD documentation",
                      "subsystem values are built from the public enum (from_frame is private); that events carry the server's name verbatim is checked by C04's monitor on session traces",
                      "hash equality is required for equal values only"],
                     time.time() - t0, len(verdict.violations))
    return code
