"""Shared machinery of the checks: build, TLC invocation, output parsing, known findings, evidence."""
import json
import os
import re
import shutil
import subprocess
import sys
import time

VERIF = os.path.dirname(os.path.dirname(os.path.abspath(__file__)))  # /verif, or a snapshot of it (vp run)
REPO = os.environ.get("VERIF_REPO", "/repo")   # the registered commands never set VERIF_REPO / VERIF_HARNESS_DIR: they judge /repo itself;
# bin/try_seeded.sh sets both to scratch copies so that seeded changes can be tried while /repo stays untouched
SPEC = os.path.join(VERIF, "spec")
HARNESS = os.environ.get("VERIF_HARNESS_DIR", os.path.join(VERIF, "harness"))
JAR = "/opt/veriftools/tla/tla2tools.jar:/opt/veriftools/tla/CommunityModules-deps.jar"


HOOKS_ON = True


class ToolError(Exception):
    pass


def seed():
    try:
        return int(os.environ.get("VERIF_SEED", "1"))
    except ValueError:
        return 1


class Work:
    """Scratch directory under /verif/work, removed at the end."""

    def __init__(self, name):
        self.dir = os.path.join(VERIF, "work", f"{name}_{os.getpid()}")
        shutil.rmtree(self.dir, ignore_errors=True)
        os.makedirs(self.dir)

    def path(self, *a):
        return os.path.join(self.dir, *a)

    def cleanup(self):
        if os.environ.get("VERIF_KEEP_WORK"):
            return
        shutil.rmtree(self.dir, ignore_errors=True)


def build_harness(features=None):
    """Incremental cargo build of the harness against /repo's current working tree (hooks enabled)."""
    if os.environ.get("VERIF_HARNESS_BIN") and not features:
        # measurement runs only (coverage-instrumented build made by bin/coverage.sh); never set by the registered commands
        return os.environ["VERIF_HARNESS_BIN"], 0.0
    cmd = ["cargo", "build", "--offline", "--quiet"]
    tdir = "target"
    if features:
        cmd += ["--features", features, "--target-dir", "target-" + features.replace(",", "-")]
        tdir = "target-" + features.replace(",", "-")
    env = dict(os.environ, CARGO_NET_OFFLINE="true")
    t0 = time.time()
    r = subprocess.run(cmd, cwd=HARNESS, env=env, capture_output=True, text=True)
    if r.returncode != 0:
        # the hooks are add-only instrumentation: if they no longer compile against an edited tree, the property checks
        # (which need no hooks) still run on a build with the guard off; only the hook-level binding is skipped
        env2 = dict(env, RUSTFLAGS="--check-cfg cfg(mpd_client_verif)")
        tdir2 = tdir + "-nohooks"
        cmd2 = [c for c in cmd if not c.startswith("target")]
        if "--target-dir" in cmd2:
            cmd2.remove("--target-dir")
        cmd2 += ["--target-dir", tdir2]
        r2 = subprocess.run(cmd2, cwd=HARNESS, env=env2, capture_output=True, text=True)
        if r2.returncode != 0:
            sys.stderr.write(r.stdout[-4000:] + r.stderr[-8000:])
            raise ToolError("cargo build of the harness failed (does /repo still compile?)")
        print("NOTE hooks-do-not-compile: the cfg(mpd_client_verif) instrumentation does not build on this tree; checks run without hooks, hook-level binding skipped")
        global HOOKS_ON
        HOOKS_ON = False
        return os.path.join(HARNESS, tdir2, "debug", "mpdv"), time.time() - t0
    return os.path.join(HARNESS, tdir, "debug", "mpdv"), time.time() - t0


def run(cmd, timeout=600, env=None, cwd=None, ok_codes=(0,)):
    try:
        r = subprocess.run(cmd, cwd=cwd, env=env, capture_output=True, text=True, timeout=timeout)
    except subprocess.TimeoutExpired:
        raise ToolError(f"timeout after {timeout}s: {' '.join(cmd[:6])}")
    if r.returncode not in ok_codes:
        sys.stderr.write(r.stdout[-3000:] + r.stderr[-3000:])
        raise ToolError(f"command failed ({r.returncode}): {' '.join(cmd[:6])}")
    return r


# ----------------------------------------------------------------------------- TLC
def _tlc_cmd(xmx):
    return ["java", f"-Xmx{xmx}", "-XX:+UseParallelGC", "-cp", JAR, "tlc2.TLC"]


def tlc_model(module, cfg, work, workers=8, timeout=900, xmx="8g", coverage=True, extra=None, simulate=None):
    """Model-check (or simulate) spec/<module>.tla with spec/cfg/<cfg>. Returns a dict with counts and raw output."""
    meta = work.path("meta_" + cfg.replace(".cfg", "") + str(time.time_ns() % 100000))
    cmd = _tlc_cmd(xmx) + ["-workers", str(workers), "-metadir", meta, "-noGenerateSpecTE", "-config", os.path.join("cfg", cfg)]
    if simulate:
        cmd += ["-simulate", simulate[0], "-depth", str(simulate[1]), "-seed", str(simulate[2])]
    elif coverage:
        cmd += ["-coverage", "1"]
    if extra:
        cmd += extra
    cmd += [module]
    t0 = time.time()
    try:
        r = subprocess.run(cmd, cwd=SPEC, capture_output=True, text=True, timeout=timeout,
                           env=dict(os.environ, JAVA_TOOL_OPTIONS="-Xss512m"))
    except subprocess.TimeoutExpired:
        shutil.rmtree(meta, ignore_errors=True)
        raise ToolError(f"TLC timeout after {timeout}s on {module} {cfg}")
    shutil.rmtree(meta, ignore_errors=True)
    out = r.stdout + r.stderr
    res = {"module": module, "cfg": cfg, "wall_s": round(time.time() - t0, 1), "out": out, "rc": r.returncode}
    m = re.search(r"(\d+) states generated, (\d+) distinct states found, (\d+) states left on queue", out)
    if m:
        res["transitions"] = int(m.group(1))
        res["states"] = int(m.group(2))
        res["queue"] = int(m.group(3))
    m = re.search(r"The depth of the complete state graph search is (\d+)", out)
    if m:
        res["depth"] = int(m.group(1))
    res["violated"] = re.findall(r"Invariant (\w+) is violated", out) + re.findall(r"Temporal properties were violated", out)
    res["error"] = bool(re.search(r"^Error:", out, re.M)) and not res["violated"]
    res["completed"] = "Model checking completed. No error has been found." in out or (simulate is not None and not res["violated"] and not res["error"])
    # per-action coverage: <Action line .. of module M>: distinct:generated
    acts = {}
    for m in re.finditer(r"^<(\w+) line \d+, col \d+ to line \d+, col \d+ of module (\w+)>: (\d+):(\d+)", out, re.M):
        acts[m.group(1)] = acts.get(m.group(1), 0) + int(m.group(4))
    res["actions"] = acts
    return res


def design_check(module, cfg, work, **kw):
    """A design check must pass: the specification is fixed text, so a failure is a /verif regression."""
    r = tlc_model(module, cfg, work, **kw)
    if not r["completed"] or r["violated"] or r["error"]:
        sys.stderr.write(r["out"][-6000:])
        raise ToolError(f"design check {module}/{cfg} did not pass (specification regression?)")
    return r


def tlc_trace(module, cfg, trace, work, timeout=900, xmx="3g", env=None):
    """Validate one ndjson trace file. Returns (records, accepted, nstates, raw output)."""
    meta = work.path("meta_t" + str(time.time_ns() % 1000000))
    e = dict(os.environ, TRACE=trace, JAVA_TOOL_OPTIONS="-Xss1g -Dtlc2.tool.queue.IStateQueue=StateDeque")
    if env:
        e.update(env)
    cmd = _tlc_cmd(xmx) + ["-workers", "1", "-metadir", meta, "-noGenerateSpecTE", "-config", os.path.join("cfg", cfg), module]
    try:
        r = subprocess.run(cmd, cwd=SPEC, capture_output=True, text=True, timeout=timeout, env=e)
    except subprocess.TimeoutExpired:
        shutil.rmtree(meta, ignore_errors=True)
        raise ToolError(f"TLC trace validation timeout after {timeout}s ({trace})")
    shutil.rmtree(meta, ignore_errors=True)
    out = r.stdout + r.stderr
    accepted = "Model checking completed. No error has been found." in out
    m = re.search(r"(\d+) states generated, (\d+) distinct states found", out)
    n = int(m.group(2)) if m else 0
    if not accepted:
        sys.stderr.write(out[-5000:])
        raise ToolError(f"trace {trace} was not accepted by {module} (harness and specification disagree, or TLC failed)")
    return parse_tuples(out), accepted, n, out


def tlc_traces_parallel(module, cfg, traces, work, jobs=8, **kw):
    """Validate several trace files in parallel JVMs; returns list of (trace, tuples, nstates)."""
    from concurrent.futures import ThreadPoolExecutor
    res = []
    with ThreadPoolExecutor(max_workers=jobs) as ex:
        futs = [(t, ex.submit(tlc_trace, module, cfg, t, work, **kw)) for t in traces]
        for t, f in futs:
            tuples, _, n, _ = f.result()
            res.append((t, tuples, n))
    return res


# ----------------------------------------------------------------------------- TLA value parsing
_TOK = re.compile(r'\s*(<<|>>|\{|\}|\[|\]|\|->|,|"(?:[^"\\]|\\.)*"|-?\d+|TRUE|FALSE|[A-Za-z_][A-Za-z_0-9]*)')


def _parse(tokens, i):
    t = tokens[i]
    if t == "<<":
        out = []
        i += 1
        while tokens[i] != ">>":
            v, i = _parse(tokens, i)
            out.append(v)
            if tokens[i] == ",":
                i += 1
        return out, i + 1
    if t == "{":
        out = []
        i += 1
        while tokens[i] != "}":
            v, i = _parse(tokens, i)
            out.append(v)
            if tokens[i] == ",":
                i += 1
        return out, i + 1
    if t == "[":
        out = {}
        i += 1
        while tokens[i] != "]":
            k = tokens[i]
            assert tokens[i + 1] == "|->", tokens[i:i + 3]
            v, i = _parse(tokens, i + 2)
            out[k] = v
            if tokens[i] == ",":
                i += 1
        return out, i + 1
    if t.startswith('"'):
        return json.loads(t), i + 1
    if t == "TRUE":
        return True, i + 1
    if t == "FALSE":
        return False, i + 1
    if re.fullmatch(r"-?\d+", t):
        return int(t), i + 1
    return t, i + 1


def parse_tuples(out):
    """All top-level <<"TAG", ...>> tuples printed by PrintT in TLC output (pretty-printed over several lines)."""
    res = []
    lines = out.split("\n")
    i = 0
    while i < len(lines):
        ln = lines[i]
        if re.match(r'^<<\s*"[A-Z]+"', ln):
            buf = ln
            depth = buf.count("<<") - buf.count(">>")
            while depth > 0 and i + 1 < len(lines):
                i += 1
                buf += " " + lines[i]
                depth = buf.count("<<") - buf.count(">>")
            toks = _TOK.findall(buf)
            try:
                v, _ = _parse(toks, 0)
                res.append(v)
            except Exception as e:  # noqa
                raise ToolError(f"cannot parse TLC tuple: {buf[:300]} ({e})")
        i += 1
    return res


# ----------------------------------------------------------------------------- known findings, verdict
def load_known():
    with open(os.path.join(VERIF, "known_findings.json")) as f:
        return json.load(f)["findings"]


class Verdict:
    """Collects violations of ONE property; separates known findings (by cause signature) from new ones."""

    def __init__(self, prop):
        self.prop = prop
        self.known = [k for k in load_known() if k["property"] == prop and k["status"] == "open"]
        self.known_hits = {}
        self.violations = []
        self.harness_errors = []

    def add(self, prop, msg, sig, where):
        """where: dict describing the failing case (run id, trace line, input...)."""
        if prop == "HARNESS":
            self.harness_errors.append((msg, where))
            return
        if prop != self.prop:
            return
        for k in self.known:
            if sig and sig == k["signature"]:
                self.known_hits.setdefault(k["id"], []).append((msg, where))
                return
        self.violations.append((msg, sig, where))

    def finish(self, replay_writer):
        """Print KNOWN-FINDING / VIOLATION lines; returns exit code."""
        if self.harness_errors:
            for msg, where in self.harness_errors[:5]:
                sys.stderr.write(f"HARNESS-ERROR {msg} at {json.dumps(where)[:300]}\n")
            return 2
        for k in self.known:
            if k["id"] in self.known_hits:
                print(f"KNOWN-FINDING: property={self.prop} {k['id']} {k['what']} ({len(self.known_hits[k['id']])} occurrences in this run)")
        if self.violations:
            seen = set()
            for msg, sig, where in self.violations:
                key = (msg, sig)
                if key in seen:
                    continue
                seen.add(key)
                path = replay_writer(msg, sig, where)
                print(f"VIOLATION property={self.prop} replay={path}")
                print(f"  what: {msg}" + (f" [{sig}]" if sig else ""))
            return 1
        return 0


def write_evidence(prop, tier, level, coverage, assumptions, wall_s, violations):
    edir = os.environ.get("VERIF_EVIDENCE_DIR", os.path.join(VERIF, "evidence"))   # (scratch dir when a seeded change is tried, see REPO above)
    os.makedirs(edir, exist_ok=True)
    ev = {"property_id": prop, "tier": tier, "seed": seed(), "level": level, "coverage": coverage,
          "assumptions": assumptions, "wall_s": round(wall_s, 1), "violations": violations}
    tmp = os.path.join(edir, f".{prop}.json.tmp")
    with open(tmp, "w") as f:
        json.dump(ev, f, indent=1)
    os.replace(tmp, os.path.join(edir, f"{prop}.json"))


def replay_dir():
    d = os.environ.get("VERIF_REPLAY_DIR", os.path.join(VERIF, "replays"))
    os.makedirs(d, exist_ok=True)
    return d
