------------------------------ MODULE LoopGen ------------------------------
\* Generator role of the Loop model (specification -> implementation): the environment's side of the
\* behaviours TLC explores is printed as JSON and replayed into the real client by `mpdv session`.
\*   simulation mode : Inv_Emit prints the schedule prefix at every state; the driver keeps the
\*                     longest prefix of each simulated behaviour
\*   exhaustive mode : ACTION_CONSTRAINT EmitEdge prints one witness schedule per explored transition
\*                     (VIEW hides the history variable), thinned by EdgeMod
EXTENDS Loop, Json
Inv_Emit == IF TLCGet("level") >= 6 THEN PrintT(<<"SCHED", TLCGet("level"), ToJson(sched)>>) ELSE TRUE
EdgeMod == 1
EmitEdge == IF TLCGet("distinct") % EdgeMod = 0 THEN PrintT(<<"SCHED", 0, ToJson(sched')>>) ELSE TRUE
=============================================================================
