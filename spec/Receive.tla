------------------------------ MODULE Receive ------------------------------
\* The receive path as coded: a transcription of mpd_protocol/src/parser.rs (nom streaming combinators:
\* alt order, tag / char / digit1 / take_while(1) / take_until / take, map_res failures, cut after the binary
\* header; results ok | inc | err | fail), of ResponseBuilder::parse (response/mod.rs) and of the two receive
\* loops of connection.rs with their buffer bookkeeping:
\*   async: growable buffer, EOF test  is_frame_in_progress \/ buffer # <<>>
\*   sync : fixed window [filled, blen), split_off / unsplit / resize, doubling when the window is full,
\*          EOF test  is_frame_in_progress \/ filled # 0;  preconditions of the buffer operations explicit
\* Checked by TLC for every stream of the configuration and EVERY segmentation into reads against the
\* independent reference RefDecode of Wire.tla (C02, C03, C09, C10).
EXTENDS Wire, TLC
CONSTANTS Streams,      \* sequence of byte streams
          Cap0,         \* initial length of the sync receive buffer (4096 in the code)
          FixedSync     \* TRUE: as coded after fix F-C09-1; FALSE: the early return that skipped unsplit/resize

Min2(a, b) == IF a < b THEN a ELSE b
OKNL == OKLINE \o <<10>>
LISTOKNL == LISTOK \o <<10>>

\* streaming tag at offset i (1-based): "ok" | "inc" | "err"
Tag(b, i, lit) == LET avail == Len(b) - i + 1  m == Min2(avail, Len(lit)) IN
                  IF \E k \in 1..m : b[i + k - 1] # lit[k] THEN "err" ELSE IF avail < Len(lit) THEN "inc" ELSE "ok"
Ch(b, i, c) == IF i > Len(b) THEN "inc" ELSE IF b[i] = c THEN "ok" ELSE "err"
FirstNot(b, i, P(_)) == LET j == FirstIdx(b, i, LAMBDA c : ~P(c)) IN IF j = 0 THEN Len(b) + 1 ELSE j
NotNl(c) == c # 10
\* streaming number: [r, j (index after), d]
Num(b, i) == LET j == FirstNot(b, i, Digit) IN
             IF j > Len(b) THEN [r |-> "inc", j |-> j, d |-> <<>>]
             ELSE IF j = i THEN [r |-> "err", j |-> j, d |-> <<>>]
             ELSE LET d == SubSeq(b, i, j - 1) IN IF DigitsGt(d, U64MAX) THEN [r |-> "err", j |-> j, d |-> d] ELSE [r |-> "ok", j |-> j, d |-> d]

None == [r |-> "err", kind |-> "none", used |-> 0, key |-> <<>>, val |-> <<>>, e |-> <<>>]
R(r) == [None EXCEPT !.r = r]
\* --- alternatives; each returns a component record; "err" = try next alternative, "fail" = cut
PError(b) ==
  LET t == Tag(b, 1, ACKSP) IN IF t # "ok" THEN R(t) ELSE
  LET c1 == Ch(b, 5, 91) IN IF c1 # "ok" THEN R(c1) ELSE
  LET n1 == Num(b, 6) IN IF n1.r # "ok" THEN R(n1.r) ELSE
  LET c2 == Ch(b, n1.j, 64) IN IF c2 # "ok" THEN R(c2) ELSE
  LET n2 == Num(b, n1.j + 1) IN IF n2.r # "ok" THEN R(n2.r) ELSE
  LET c3 == Ch(b, n2.j, 93) IN IF c3 # "ok" THEN R(c3) ELSE
  LET c4 == Ch(b, n2.j + 1, 32) IN IF c4 # "ok" THEN R(c4) ELSE
  LET c5 == Ch(b, n2.j + 2, 123) IN IF c5 # "ok" THEN R(c5) ELSE
  LET p == n2.j + 3  q == FirstNot(b, p, CmdCh) IN
  IF q > Len(b) THEN R("inc") ELSE      \* take_while1 streaming reaches end of input; opt() passes Incomplete on
  LET c6 == Ch(b, q, 125) IN IF c6 # "ok" THEN R(c6) ELSE
  LET c7 == Ch(b, q + 1, 32) IN IF c7 # "ok" THEN R(c7) ELSE
  LET m == FirstNot(b, q + 2, NotNl) IN
  IF m > Len(b) THEN R("inc") ELSE
  LET msg == SubSeq(b, q + 2, m - 1) IN
  IF ~ValidUtf8(msg) THEN R("err")
  ELSE [r |-> "ok", kind |-> "error", used |-> m, key |-> <<>>, val |-> <<>>, e |-> <<StripZ(n1.d), StripZ(n2.d), SubSeq(b, p, q - 1), msg>>]
PBinary(b) ==
  LET t == Tag(b, 1, BINSP) IN IF t # "ok" THEN R(t) ELSE
  LET n == Num(b, 9) IN IF n.r # "ok" THEN R(n.r) ELSE
  LET c == Ch(b, n.j, 10) IN IF c # "ok" THEN R(c) ELSE
  LET len == NumVal(n.d)  have == Len(b) - n.j IN      \* cut: from here on errors are failures
  IF have < len THEN R("inc")
  ELSE LET c2 == Ch(b, n.j + len + 1, 10) IN
       IF c2 = "inc" THEN R("inc") ELSE IF c2 = "err" THEN R("fail")
       ELSE [r |-> "ok", kind |-> "bin", used |-> n.j + len + 1, key |-> <<>>, val |-> SubSeq(b, n.j + 1, n.j + len), e |-> <<>>]
PField(b) ==
  LET j == FirstNot(b, 1, KeyCh) IN
  IF j > Len(b) THEN R("inc") ELSE IF j = 1 THEN R("err") ELSE
  LET t == Tag(b, j, COLSP) IN IF t # "ok" THEN R(t) ELSE
  LET m == FirstNot(b, j + 2, NotNl) IN
  IF m > Len(b) THEN R("inc") ELSE
  LET v == SubSeq(b, j + 2, m - 1) IN
  IF ~ValidUtf8(v) THEN R("err") ELSE [r |-> "ok", kind |-> "field", used |-> m, key |-> SubSeq(b, 1, j - 1), val |-> v, e |-> <<>>]
Component(b) ==
  LET t1 == Tag(b, 1, OKNL) IN
  IF t1 = "ok" THEN [None EXCEPT !.r = "ok", !.kind = "eor", !.used = 3] ELSE IF t1 = "inc" THEN R("inc") ELSE
  LET t2 == Tag(b, 1, LISTOKNL) IN
  IF t2 = "ok" THEN [None EXCEPT !.r = "ok", !.kind = "eof", !.used = 8] ELSE IF t2 = "inc" THEN R("inc") ELSE
  LET e == PError(b) IN IF e.r # "err" THEN e ELSE
  LET bn == PBinary(b) IN IF bn.r # "err" THEN bn ELSE
  PField(b)

\* parse as much as possible: returns [res: "resp"|"inc"|"invalid", resp, data (unconsumed), bl]
RECURSIVE ParseAll(_, _)
ParseAll(data, bl) ==
  IF data = <<>> THEN [res |-> "inc", resp |-> NoResp, data |-> data, bl |-> bl] ELSE
  LET c == Component(data) IN
  IF c.r = "inc" THEN [res |-> "inc", resp |-> NoResp, data |-> data, bl |-> bl]
  ELSE IF c.r \in {"err", "fail"} THEN [res |-> "invalid", resp |-> NoResp, data |-> data, bl |-> bl]
  ELSE LET rest == SubSeq(data, c.used + 1, Len(data)) IN
       IF c.kind = "eor" THEN [res |-> "resp", resp |-> FinishR(bl), data |-> rest, bl |-> B0]
       ELSE IF c.kind = "error" THEN [res |-> "resp", resp |-> ErrR(bl, c.e), data |-> rest, bl |-> B0]
       ELSE IF c.kind = "eof" THEN ParseAll(rest, EndFrame(bl))
       ELSE IF c.kind = "bin" THEN ParseAll(rest, AddBin(bl, c.val))
       ELSE ParseAll(rest, AddField(bl, c.key, c.val))

\* --- the two receive loops as step machines.  One behaviour = one stream, one flavour, one segmentation
\* (chosen read by read), receive called until the first terminal outcome and then ONCE MORE (`again`).
\* The steps are pure operators on a state record (PParse / PRead / PEof): the exhaustive model below and the
\* hook-level trace specification ReceiveTrace.tla (events recorded inside the real receive loops) use the same ones.
StreamOf(k) == Streams[k]          \* (the trace specification overrides this with the recorded stream of case k)
St0(sidv, flv) == [sid |-> sidv, fl |-> flv, pos |-> 0, data |-> <<>>, bl |-> B0, filled |-> 0, blen |-> Cap0, bcap |-> Cap0,
                   out |-> <<>>, again |-> "", phase |-> "parse", nreads |-> 0]
Extra(s) == s.out # <<>> /\ s.out[Len(s.out)].t # "resp"              \* this is the extra call after a terminal outcome
PTerm(s, t) == IF Extra(s) THEN [s EXCEPT !.again = t, !.phase = "done"]
               ELSE [s EXCEPT !.out = Append(@, Out(t, NoResp)), !.phase = "parse"]
\* one parse phase of one loop iteration of receive()
PParse(s) ==
  IF s.fl = "sync" /\ s.filled > s.bcap THEN PTerm(s, "PANIC")      \* split_off(total_received) precondition violated: panic
  ELSE LET p == ParseAll(s.data, s.bl)
           k == Len(s.data) - Len(p.data)
           s1 == [s EXCEPT !.data = p.data] IN
       IF p.res = "resp" THEN
          LET s2 == IF Extra(s) THEN [s1 EXCEPT !.again = "resp", !.phase = "done"]
                    ELSE [s1 EXCEPT !.out = Append(@, Out("resp", p.resp)), !.phase = "parse"] IN
          [s2 EXCEPT !.bl = B0, !.filled = s.filled - k]
       ELSE IF p.res = "invalid" THEN
          LET s2 == [PTerm(s1, "invalid") EXCEPT !.bl = B0] IN
          IF s.fl = "sync" /\ ~FixedSync THEN [s2 EXCEPT !.blen = s.filled - k, !.bcap = s.filled - k]   \* early return: no unsplit/resize
          ELSE [s2 EXCEPT !.filled = s.filled - k]
       ELSE [s1 EXCEPT !.bl = p.bl, !.phase = "read", !.filled = s.filled - k]
\* one successful read of n bytes (sync: into the window [filled, blen), doubling when the window is now full)
PRead(s, n) ==
  LET grow == s.fl = "sync" /\ s.blen = s.filled + n IN
  [s EXCEPT !.data = @ \o SubSeq(StreamOf(s.sid), s.pos + 1, s.pos + n), !.pos = @ + n, !.filled = @ + n,
            !.blen = IF grow THEN 2 * @ ELSE @, !.bcap = IF grow THEN 2 * s.blen ELSE @, !.phase = "parse", !.nreads = @ + 1]
\* a read that returns 0 bytes
PEof(s) == [PTerm(s, IF s.bl.st # "init" \/ (IF s.fl = "sync" THEN s.filled # 0 ELSE s.data # <<>>) THEN "ueof" ELSE "clean")
              EXCEPT !.bl = B0, !.nreads = @ + 1]

VARIABLES sid, fl, pos, data, bl, filled, blen, bcap, out, again, phase, nreads
vars == <<sid, fl, pos, data, bl, filled, blen, bcap, out, again, phase, nreads>>
Stream == StreamOf(sid)
Cur == [sid |-> sid, fl |-> fl, pos |-> pos, data |-> data, bl |-> bl, filled |-> filled, blen |-> blen, bcap |-> bcap,
        out |-> out, again |-> again, phase |-> phase, nreads |-> nreads]
Become(n) == /\ sid' = n.sid /\ fl' = n.fl /\ pos' = n.pos /\ data' = n.data /\ bl' = n.bl /\ filled' = n.filled /\ blen' = n.blen
             /\ bcap' = n.bcap /\ out' = n.out /\ again' = n.again /\ phase' = n.phase /\ nreads' = n.nreads
Init == \E i \in 1..Len(Streams), f \in {"async", "sync"} : (LET n == St0(i, f) IN
          /\ sid = n.sid /\ fl = n.fl /\ pos = n.pos /\ data = n.data /\ bl = n.bl /\ filled = n.filled /\ blen = n.blen
          /\ bcap = n.bcap /\ out = n.out /\ again = n.again /\ phase = n.phase /\ nreads = n.nreads)
Parse == phase = "parse" /\ Become(PParse(Cur))
Read == /\ phase = "read" /\ pos < Len(Stream)
        /\ \E n \in 1..(Len(Stream) - pos) : (fl = "sync" => n <= blen - filled) /\ Become(PRead(Cur, n))
Eof == phase = "read" /\ pos = Len(Stream) /\ Become(PEof(Cur))
ZeroWindow == phase = "read" /\ fl = "sync" /\ blen - filled = 0     \* a read into an empty window would look like EOF
Next == Parse \/ Read \/ Eof
Spec == Init /\ [][Next]_vars
Inv_NoZeroWindow == ~ZeroWindow
Inv_Filled == (fl = "sync" /\ phase = "read") => filled = Len(data)
\* C02 / C03 / C10: whatever the segmentation and the flavour, the outcomes are those of the reference decoder
Inv_C02 == phase = "done" => SameOutcomes(RefDecode(Stream), out)
\* C09: no panic (also on the extra call), every call returns, reads bounded by the number of chunks + EOFs
NoPanic == again # "PANIC" /\ \A k \in 1..Len(out) : out[k].t # "PANIC"
Inv_Reads == nreads <= Len(Stream) + 2
Inv_Again == phase = "done" => again \in {"clean", "ueof", "invalid", "resp"}
=============================================================================
