---------------------------- MODULE FilterGrammar ----------------------------
\* MPD's filter-expression grammar, transcribed from song/Filter.cxx (SongFilter::ParseExpression,
\* ExpectQuoted, ExpectWord) over byte sequences.  Applied to ONE tokenized argument
\* (layer 2; layer 1 is Tokenizer.tla).  Result: abstract tree
\*   [k |-> "tag", tag, op, v] | [k |-> "not", e] | [k |-> "and", es]
EXTENDS Tokenizer

EFail(w) == [ok |-> FALSE, e |-> [k |-> "none"], next |-> 0, why |-> w]
At(s, i) == IF i <= Len(s) THEN s[i] ELSE 0
HasPrefixCI(s, i, p) == i + Len(p) - 1 <= Len(s) /\ \A k \in 1..Len(p) : Lower(s[i + k - 1]) = p[k]
RECURSIVE QuotedFrom(_, _, _, _)
QuotedFrom(s, j, q, acc) == IF j > Len(s) THEN Fail("Closing quote not found")
                            ELSE IF s[j] = q THEN Tok(acc, SkipWs(s, j + 1))
                            ELSE IF s[j] = 92 THEN (IF j + 1 > Len(s) THEN Fail("Closing quote not found") ELSE QuotedFrom(s, j + 2, q, Append(acc, s[j + 1])))
                            ELSE QuotedFrom(s, j + 1, q, Append(acc, s[j]))
ExpectQuoted(s, i) == IF At(s, i) \notin {34, 39} THEN Fail("Quoted string expected") ELSE QuotedFrom(s, i + 1, s[i], <<>>)
RECURSIVE FWordEnd(_, _)
FWordEnd(s, j) == IF j <= Len(s) /\ (Alpha(s[j]) \/ Digit(s[j]) \/ s[j] = 95 \/ s[j] = 45) THEN FWordEnd(s, j + 1) ELSE j
ExpectWord(s, i) == IF ~Alpha(At(s, i)) THEN Fail("Letter expected") ELSE LET e == FWordEnd(s, i + 1) IN Tok(SubSeq(s, i, e - 1), SkipWs(s, e))
Str(x) == x  \* placeholder
OpAt(s, i) ==  \* returns [ok, op, next]
   LET c(str) == [k \in 1..Len(str) |-> str[k]] IN
   IF HasPrefixCI(s, i, <<99,111,110,116,97,105,110,115,32>>) THEN [ok |-> TRUE, op |-> "contains", next |-> SkipWs(s, i + 9)]
   ELSE IF HasPrefixCI(s, i, <<33,99,111,110,116,97,105,110,115,32>>) THEN [ok |-> TRUE, op |-> "!contains", next |-> SkipWs(s, i + 10)]
   ELSE IF HasPrefixCI(s, i, <<115,116,97,114,116,115,95,119,105,116,104,32>>) THEN [ok |-> TRUE, op |-> "starts_with", next |-> SkipWs(s, i + 12)]
   ELSE IF HasPrefixCI(s, i, <<33,115,116,97,114,116,115,95,119,105,116,104,32>>) THEN [ok |-> TRUE, op |-> "!starts_with", next |-> SkipWs(s, i + 13)]
   ELSE IF At(s, i) = 61 /\ At(s, i + 1) = 61 THEN [ok |-> TRUE, op |-> "==", next |-> SkipWs(s, i + 2)]
   ELSE IF At(s, i) = 33 /\ At(s, i + 1) = 61 THEN [ok |-> TRUE, op |-> "!=", next |-> SkipWs(s, i + 2)]
   ELSE IF At(s, i) = 61 /\ At(s, i + 1) = 126 THEN [ok |-> TRUE, op |-> "=~", next |-> SkipWs(s, i + 2)]
   ELSE IF At(s, i) = 33 /\ At(s, i + 1) = 126 THEN [ok |-> TRUE, op |-> "!~", next |-> SkipWs(s, i + 2)]
   ELSE [ok |-> FALSE, op |-> "", next |-> 0]

RECURSIVE ParseExpr(_, _)
RECURSIVE AndRest(_, _, _)
\* precondition s[i] = "("
ParseExpr(s, i0) ==
  IF At(s, i0) # 40 THEN EFail("( expected") ELSE
  LET i == SkipWs(s, i0 + 1) IN
  IF At(s, i) = 40 THEN
      LET f == ParseExpr(s, i) IN
      IF ~f.ok THEN f
      ELSE IF At(s, f.next) = 41 THEN [ok |-> TRUE, e |-> f.e, next |-> SkipWs(s, f.next + 1), why |-> ""]
      ELSE AndRest(s, f.next, <<f.e>>)
  ELSE IF At(s, i) = 33 THEN
      LET j == SkipWs(s, i + 1) IN
      IF At(s, j) # 40 THEN EFail("( expected") ELSE
      LET f == ParseExpr(s, j) IN
      IF ~f.ok THEN f
      ELSE IF At(s, f.next) # 41 THEN EFail(") expected")
      ELSE [ok |-> TRUE, e |-> [k |-> "not", e |-> f.e], next |-> SkipWs(s, f.next + 1), why |-> ""]
  ELSE
      LET w == ExpectWord(s, i) IN
      IF ~w.ok THEN EFail(w.why) ELSE
      LET o == OpAt(s, w.next) IN
      IF ~o.ok THEN EFail("== expected") ELSE
      LET v == ExpectQuoted(s, o.next) IN
      IF ~v.ok THEN EFail(v.why)
      ELSE IF At(s, v.next) # 41 THEN EFail(") expected")
      ELSE [ok |-> TRUE, e |-> [k |-> "tag", tag |-> LowerS(w.tok), op |-> o.op, v |-> v.tok], next |-> SkipWs(s, v.next + 1), why |-> ""]
\* after first item of an AND list, at position p (not a ')')
AndRest(s, p, items) ==
  LET w == ExpectWord(s, p) IN
  IF ~w.ok \/ w.tok # <<65, 78, 68>> THEN EFail("AND expected") ELSE
  LET f == ParseExpr(s, w.next) IN
  IF ~f.ok THEN f
  ELSE IF At(s, f.next) = 41 THEN [ok |-> TRUE, e |-> [k |-> "and", es |-> Append(items, f.e)], next |-> SkipWs(s, f.next + 1), why |-> ""]
  ELSE AndRest(s, f.next, Append(items, f.e))
ParseFilter(arg) == IF At(arg, 1) # 40 THEN EFail("not an expression")
                    ELSE LET f == ParseExpr(arg, 1) IN IF f.ok /\ f.next # Len(arg) + 1 THEN EFail("Unparsed garbage after expression") ELSE f

\* mirror tree from JSON -> same representation, flattened ANDs on both sides
OpName(b) == CASE b = <<61,61>> -> "==" [] b = <<33,61>> -> "!=" [] b = <<99,111,110,116,97,105,110,115>> -> "contains" [] b = <<61,126>> -> "=~" [] b = <<33,126>> -> "!~" [] OTHER -> "?"
RECURSIVE Norm(_, _)
RECURSIVE FlatItems(_, _)
FlatItems(es, j) == IF es = <<>> THEN <<>> ELSE LET h == Norm(Head(es), j) IN (IF h.k = "and" THEN h.es ELSE <<h>>) \o FlatItems(Tail(es), j)
Norm(e, j) == IF e.k = "tag" THEN [k |-> "tag", tag |-> LowerS(e.tag), op |-> (IF j THEN OpName(e.op) ELSE e.op), v |-> e.v]
              ELSE IF e.k = "not" THEN [k |-> "not", e |-> Norm(e.e, j)]
              ELSE [k |-> "and", es |-> FlatItems(e.es, j)]
=============================================================================
