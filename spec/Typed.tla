-------------------------------- MODULE Typed --------------------------------
\* What MPD's typed replies MEAN (C14, C16): for each reply kind a reference function from the ordered list of
\* key/value lines the server sent (plus optional payload) to
\*     [st |-> "ok",  val |-> the value the typed response must carry]     well-formed reply
\*     [st |-> "err", ..]   well-formed shape but a value outside its field's domain: an error is required
\*     [st |-> "any", ..]   not a reply the server would send for this command: only totality (C12) applies
\* written from the MPD protocol reference (command reference, "Tags", "The music database"), not from the code.
\* Numbers are decimal digit strings (64-bit), durations <<secs digits, nanos>>.
EXTENDS Integers, Sequences, FiniteSets

Ok(v)  == [st |-> "ok", val |-> v]
Err    == [st |-> "err", val |-> <<>>]
Unspec    == [st |-> "any", val |-> <<>>]
None == <<>>
Some(x) == <<x>>

B(s) == s    \* byte strings are tuples of integers; key literals below are written as tuples
K_file == <<102,105,108,101>>
K_directory == <<100,105,114,101,99,116,111,114,121>>
K_playlist == <<112,108,97,121,108,105,115,116>>
K_LastModified == <<76,97,115,116,45,77,111,100,105,102,105,101,100>>
K_duration == <<100,117,114,97,116,105,111,110>>
K_Time == <<84,105,109,101>>
K_Range == <<82,97,110,103,101>>
K_Format == <<70,111,114,109,97,116>>
K_Prio == <<80,114,105,111>>
K_Pos == <<80,111,115>>
K_Id == <<73,100>>

Digit(c) == c >= 48 /\ c <= 57
IsDigits(d) == d # <<>> /\ \A k \in 1..Len(d) : Digit(d[k])
RECURSIVE StripZ(_)
StripZ(d) == IF Len(d) > 1 /\ d[1] = 48 THEN StripZ(Tail(d)) ELSE d
RECURSIVE LexGt(_, _)
LexGt(a, b) == IF a = <<>> THEN FALSE ELSE IF a[1] # b[1] THEN a[1] > b[1] ELSE LexGt(Tail(a), Tail(b))
DecGt(a0, b0) == LET a == StripZ(a0)  b == StripZ(b0) IN IF Len(a) # Len(b) THEN Len(a) > Len(b) ELSE LexGt(a, b)
U64MAX == <<49,56,52,52,54,55,52,52,48,55,51,55,48,57,53,53,49,54,49,53>>
U32MAX == <<52,50,57,52,57,54,55,50,57,53>>
U8MAX  == <<50,53,53>>
RECURSIVE ValOf(_, _)
ValOf(d, acc) == IF d = <<>> THEN acc ELSE ValOf(Tail(d), acc * 10 + (d[1] - 48))
IndexOf(s, b) == LET S == {k \in 1..Len(s) : s[k] = b} IN IF S = {} THEN 0 ELSE CHOOSE k \in S : \A j \in S : k <= j

\* ---- value domains: each returns [c |-> "ok" | "err" | "any", v |-> value]
\* unsigned integer <= max.  "+5" and the like: Rust's parser takes an explicit plus sign; the protocol never sends one -> any
Num(v, max) == IF IsDigits(v) THEN (IF DecGt(v, max) THEN [c |-> "err", v |-> <<>>] ELSE [c |-> "ok", v |-> StripZ(v)])
               ELSE IF Len(v) >= 2 /\ v[1] = 43 /\ IsDigits(Tail(v)) THEN [c |-> "any", v |-> <<>>]
               ELSE [c |-> "err", v |-> <<>>]
Bool(v) == IF v = <<48>> THEN [c |-> "ok", v |-> FALSE] ELSE IF v = <<49>> THEN [c |-> "ok", v |-> TRUE] ELSE [c |-> "err", v |-> FALSE]
\* seconds: digits [ "." digits ] with an integer part of at most 7 digits and at most 9 decimals is the certain domain;
\* negative numbers, NaN, infinities, text, empty are outside; other float spellings (1e3, .5, 5., +1, -0, huge) -> any
Lower(c) == IF c >= 65 /\ c <= 90 THEN c + 32 ELSE c
LowerS(s) == [k \in 1..Len(s) |-> Lower(s[k])]
FloatCh(c) == Digit(c) \/ c \in {43, 45, 46, 101, 69}
NanInf == {<<105,110,102>>, <<110,97,110>>, <<105,110,102,105,110,105,116,121>>}            \* inf nan infinity
Unsigned(v) == IF v # <<>> /\ v[1] \in {43, 45} THEN Tail(v) ELSE v
StrictDec(v) == LET p == IndexOf(v, 46)
                    ip == IF p = 0 THEN v ELSE SubSeq(v, 1, p - 1)
                    fp == IF p = 0 THEN <<>> ELSE SubSeq(v, p + 1, Len(v)) IN
                IsDigits(ip) /\ (p = 0 \/ IsDigits(fp))
NonZero(v) == \E k \in 1..Len(v) : v[k] >= 49 /\ v[k] <= 57
Dur(v) ==
  LET p == IndexOf(v, 46)
      ip == IF p = 0 THEN v ELSE SubSeq(v, 1, p - 1)
      fp == IF p = 0 THEN <<>> ELSE SubSeq(v, p + 1, Len(v)) IN
  IF StrictDec(v) /\ (\/ Len(StripZ(ip)) <= 7 /\ Len(fp) <= 9
                      \/ Len(StripZ(ip)) <= 15 /\ Len(fp) <= 9 /\ \A k \in 1..Len(fp) : fp[k] = 48)   \* whole seconds below 2^53 are exact in f64
  THEN [c |-> "ok", v |-> <<StripZ(ip), IF fp = <<>> THEN 0 ELSE ValOf(fp, 0) * (10 ^ (9 - Len(fp)))>>]
  ELSE IF v = <<>> THEN [c |-> "err", v |-> <<>>]
  ELSE IF LowerS(Unsigned(v)) \in NanInf THEN [c |-> "err", v |-> <<>>]
  ELSE IF v[1] = 45 /\ StrictDec(Tail(v)) /\ NonZero(Tail(v)) THEN [c |-> "err", v |-> <<>>]      \* negative
  ELSE IF \A k \in 1..Len(v) : FloatCh(v[k]) THEN [c |-> "any", v |-> <<>>]                     \* other float spellings, huge values
  ELSE [c |-> "err", v |-> <<>>]                                                                \* text
\* durations are compared with a tolerance for binary floating point (the typed layer goes through f64)
SameDur(a, b) == a[1] = b[1] /\ (a[2] - b[2] <= 1000) /\ (b[2] - a[2] <= 1000)

\* ---- helpers over the line list
Vals(fields, k) == LET S == {i \in 1..Len(fields) : fields[i][1] = k} IN
                   [j \in 1..Cardinality(S) |-> fields[CHOOSE i \in S : Cardinality({x \in S : x < i}) = j - 1][2]]
Count(fields, k) == Cardinality({i \in 1..Len(fields) : fields[i][1] = k})
KeysOf(fields) == {fields[i][1] : i \in 1..Len(fields)}
\* combine classified parts: any dominates, then err
Worst(cs) == IF "any" \in cs THEN "any" ELSE IF "err" \in cs THEN "err" ELSE "ok"

\* =====================================================================================================
\* C14: song listings.  entries = file | directory | playlist lines; what follows a file line up to the next
\* entry are that song's attributes (duration, Time, Range, Format, Last-Modified, Prio, Pos, Id) and tags.
IsStart(k) == k \in {K_file, K_directory, K_playlist}
\* attribute domain per key: returns c
AttrClass(kv) ==
  LET k == kv[1]  v == kv[2] IN
  IF k \in {K_duration, K_Time} THEN Dur(v).c
  ELSE IF k = K_Pos \/ k = K_Id THEN Num(v, U64MAX).c
  ELSE IF k = K_Prio THEN Num(v, U8MAX).c
  ELSE IF k = K_Range THEN
       (LET p == IndexOf(v, 45) IN
        IF p = 0 THEN "err" ELSE LET a == SubSeq(v, 1, p - 1)  b == SubSeq(v, p + 1, Len(v)) IN
        Worst({Dur(a).c} \cup (IF b = <<>> THEN {} ELSE {Dur(b).c})))
  ELSE "ok"
RangeVal(v) == LET p == IndexOf(v, 45)  a == SubSeq(v, 1, p - 1)  b == SubSeq(v, p + 1, Len(v)) IN
               <<Dur(a).v, IF b = <<>> THEN None ELSE Some(Dur(b).v)>>
\* Last-Modified with the chrono feature: the value must parse as RFC 3339.  Certainly valid: the form MPD sends,
\* YYYY-MM-DDTHH:MM:SS followed by Z or +-HH:MM, all fields in range (day <= 28 so that no calendar is needed);
\* certainly invalid: the empty string; everything else is left open.  Without the feature the value is kept as it is.
IsDig(c) == c >= 48 /\ c <= 57
D2(v, i) == (v[i] - 48) * 10 + (v[i + 1] - 48)
TsStrict(v) == /\ Len(v) \in {20, 25}
               /\ \A i \in {1, 2, 3, 4, 6, 7, 9, 10, 12, 13, 15, 16, 18, 19} : IsDig(v[i])
               /\ v[1] >= 49 /\ v[5] = 45 /\ v[8] = 45 /\ v[11] = 84 /\ v[14] = 58 /\ v[17] = 58
               /\ D2(v, 6) \in 1..12 /\ D2(v, 9) \in 1..28 /\ D2(v, 12) \in 0..23 /\ D2(v, 15) \in 0..59 /\ D2(v, 18) \in 0..59
               /\ IF Len(v) = 20 THEN v[20] = 90
                  ELSE /\ v[20] \in {43, 45} /\ IsDig(v[21]) /\ IsDig(v[22]) /\ v[23] = 58 /\ IsDig(v[24]) /\ IsDig(v[25])
                       /\ D2(v, 21) \in 0..14 /\ D2(v, 24) \in {0, 30, 45}
TsClass(v, chrono) == IF ~chrono \/ TsStrict(v) THEN "ok" ELSE IF v = <<>> THEN "err" ELSE "any"
LastOf(s) == s[Len(s)]
\* the song described by attribute lines attrs (in order) after "file: url"
SongOf(url, attrs, chrono) ==
  LET durs == Vals(attrs, K_duration)  times == Vals(attrs, K_Time)
      tagKeys == KeysOf(attrs) \ {K_duration, K_Time, K_Range, K_Format, K_LastModified, K_Prio, K_Pos, K_Id} IN
  [ url |-> url,
    dur |-> IF durs # <<>> THEN Some(Dur(LastOf(durs)).v) ELSE IF times # <<>> THEN Some(Dur(times[1]).v) ELSE None,
    format |-> IF Vals(attrs, K_Format) = <<>> THEN None ELSE Some(LastOf(Vals(attrs, K_Format))),
    lm |-> IF Vals(attrs, K_LastModified) = <<>> THEN None ELSE Some(LastOf(Vals(attrs, K_LastModified))),
    pos |-> IF Vals(attrs, K_Pos) = <<>> THEN <<48>> ELSE Num(LastOf(Vals(attrs, K_Pos)), U64MAX).v,
    id |-> IF Vals(attrs, K_Id) = <<>> THEN <<48>> ELSE Num(LastOf(Vals(attrs, K_Id)), U64MAX).v,
    prio |-> IF Vals(attrs, K_Prio) = <<>> THEN <<48>> ELSE Num(LastOf(Vals(attrs, K_Prio)), U8MAX).v,
    range |-> IF Vals(attrs, K_Range) = <<>> THEN None ELSE Some(RangeVal(LastOf(Vals(attrs, K_Range)))),
    tags |-> {<<k, Vals(attrs, k)>> : k \in tagKeys} ]
\* split the listing into entries: sequence of <<startkey, name, attrs>>
RECURSIVE Entries(_, _, _)
Entries(fields, i, acc) ==
  IF i > Len(fields) THEN acc
  ELSE IF IsStart(fields[i][1]) THEN Entries(fields, i + 1, Append(acc, <<fields[i][1], fields[i][2], <<>>>>))
  ELSE Entries(fields, i + 1, [acc EXCEPT ![Len(acc)][3] = Append(@, fields[i])])
\* a listing is well-formed if it starts with an entry line, URLs are non-empty, directory / playlist entries carry
\* only Last-Modified, no attribute repeats within a song except tags, and Time (if present) agrees with duration's domain
Listing(fields, chrono) ==
  IF fields = <<>> THEN Ok(<<>>)
  ELSE IF ~IsStart(fields[1][1]) THEN Unspec
  ELSE LET es == Entries(fields, 1, <<>>)
           wf == \A j \in 1..Len(es) :
                   /\ es[j][2] # <<>>
                   /\ (es[j][1] # K_file => \A a \in 1..Len(es[j][3]) : es[j][3][a][1] = K_LastModified)
                   /\ (es[j][1] = K_file => \A k \in {K_duration, K_Time, K_Range, K_Format, K_LastModified, K_Prio, K_Pos, K_Id} : Count(es[j][3], k) <= 1)
           songs == SelectSeq(es, LAMBDA e : e[1] = K_file)
           \* the legacy Time line is redundant when the song also has a duration line: an odd Time value may then be ignored
           cls == UNION {{IF songs[j][3][a][1] = K_Time /\ Count(songs[j][3], K_duration) > 0 /\ AttrClass(songs[j][3][a]) # "ok" THEN "any"
                          ELSE AttrClass(songs[j][3][a]) : a \in 1..Len(songs[j][3])} : j \in 1..Len(songs)}
           lmCls == UNION {{TsClass(songs[j][3][a][2], chrono) : a \in {x \in 1..Len(songs[j][3]) : songs[j][3][x][1] = K_LastModified}} : j \in 1..Len(songs)}
           all == cls \cup lmCls
       IN IF ~wf THEN Unspec
          ELSE IF Worst(all) = "any" THEN Unspec ELSE IF Worst(all) = "err" THEN Err
          ELSE Ok([j \in 1..Len(songs) |-> SongOf(songs[j][2], songs[j][3], chrono)])

\* =====================================================================================================
\* C16: status
Kb(s) == s
K_volume == <<118,111,108,117,109,101>>  K_state == <<115,116,97,116,101>>  K_repeat == <<114,101,112,101,97,116>>  K_random == <<114,97,110,100,111,109>>
K_consume == <<99,111,110,115,117,109,101>>  K_single == <<115,105,110,103,108,101>>  K_playlistlength == <<112,108,97,121,108,105,115,116,108,101,110,103,116,104>>
K_song == <<115,111,110,103>>  K_songid == <<115,111,110,103,105,100>>  K_nextsong == <<110,101,120,116,115,111,110,103>>  K_nextsongid == <<110,101,120,116,115,111,110,103,105,100>>
K_elapsed == <<101,108,97,112,115,101,100>>  K_bitrate == <<98,105,116,114,97,116,101>>  K_xfade == <<120,102,97,100,101>>  K_updating_db == <<117,112,100,97,116,105,110,103,95,100,98>>
K_error == <<101,114,114,111,114>>  K_partition == <<112,97,114,116,105,116,105,111,110>>  K_time == <<116,105,109,101>>
PLAY == <<112,108,97,121>>  STOP == <<115,116,111,112>>  PAUSE == <<112,97,117,115,101>>  ONESHOT == <<111,110,101,115,104,111,116>>
StatusKeys == {K_volume, K_state, K_repeat, K_random, K_consume, K_single, K_playlist, K_playlistlength, K_song, K_songid, K_nextsong, K_nextsongid,
               K_elapsed, K_duration, K_bitrate, K_xfade, K_updating_db, K_error, K_partition}
Opt(fields, k) == IF Count(fields, k) = 0 THEN None ELSE Some(Vals(fields, k)[1])
Status(fields) ==
  \* well-formed: every documented field at most once, the always-present ones present, song ids in pairs,
  \* no capitalised Time field (no MPD sends it in a status reply; the library's compatibility path for it is outside the property).
  \* The lower-case `time: <elapsed>:<total>` line IS part of every status reply of a playing server (deprecated, whole seconds); it
  \* corresponds to no field of the typed value: `elapsed` / `duration` are present exactly when THEIR lines are (a stream of unknown
  \* length has `time: 12:0`, `elapsed`, and no `duration`)
  IF \/ \E k \in StatusKeys : Count(fields, k) > 1
     \/ \E k \in {K_state, K_repeat, K_random, K_consume} : Count(fields, k) = 0
     \/ Count(fields, K_song) # Count(fields, K_songid) \/ Count(fields, K_nextsong) # Count(fields, K_nextsongid)
     \/ Count(fields, K_Time) > 0
  THEN Unspec ELSE
  LET v(k) == Vals(fields, k)[1]
      has(k) == Count(fields, k) = 1
      stC == IF v(K_state) \in {PLAY, STOP, PAUSE} THEN "ok" ELSE "err"
      siC == IF ~has(K_single) \/ v(K_single) \in {<<48>>, <<49>>, ONESHOT} THEN "ok" ELSE "err"
      numC(k, max) == IF has(k) THEN Num(v(k), max).c ELSE "ok"
      durC(k) == IF has(k) THEN Dur(v(k)).c ELSE "ok"
      cls == {stC, siC, Bool(v(K_repeat)).c, Bool(v(K_random)).c, Bool(v(K_consume)).c, numC(K_volume, U8MAX), numC(K_playlist, U32MAX), numC(K_playlistlength, U64MAX),
              numC(K_song, U64MAX), numC(K_songid, U64MAX), numC(K_nextsong, U64MAX), numC(K_nextsongid, U64MAX), durC(K_elapsed), durC(K_duration),
              numC(K_bitrate, U64MAX), durC(K_xfade), numC(K_updating_db, U64MAX)}
      numO(k, max) == IF has(k) THEN Some(Num(v(k), max).v) ELSE None
      durO(k) == IF has(k) THEN Some(Dur(v(k)).v) ELSE None
  IN IF Worst(cls) = "any" THEN Unspec ELSE IF Worst(cls) = "err" THEN Err ELSE
     Ok([ volume |-> IF has(K_volume) THEN ValOf(Num(v(K_volume), U8MAX).v, 0) ELSE 0,        \* documented default when the server omits it
          state |-> v(K_state), repeat |-> Bool(v(K_repeat)).v, random |-> Bool(v(K_random)).v, consume |-> Bool(v(K_consume)).v,
          single |-> IF has(K_single) THEN v(K_single) ELSE <<48>>,
          plver |-> IF has(K_playlist) THEN Num(v(K_playlist), U32MAX).v ELSE <<48>>,
          pllen |-> IF has(K_playlistlength) THEN Num(v(K_playlistlength), U64MAX).v ELSE <<48>>,
          cur |-> IF has(K_song) THEN Some(<<Num(v(K_song), U64MAX).v, Num(v(K_songid), U64MAX).v>>) ELSE None,
          next |-> IF has(K_nextsong) THEN Some(<<Num(v(K_nextsong), U64MAX).v, Num(v(K_nextsongid), U64MAX).v>>) ELSE None,
          elapsed |-> durO(K_elapsed), duration |-> durO(K_duration), bitrate |-> numO(K_bitrate, U64MAX),
          xfade |-> IF has(K_xfade) THEN Dur(v(K_xfade)).v ELSE <<<<48>>, 0>>,
          update_job |-> numO(K_updating_db, U64MAX), error |-> Opt(fields, K_error), partition |-> Opt(fields, K_partition) ])

\* ---- stats
K_artists == <<97,114,116,105,115,116,115>>  K_albums == <<97,108,98,117,109,115>>  K_songs == <<115,111,110,103,115>>  K_uptime == <<117,112,116,105,109,101>>
K_playtime == <<112,108,97,121,116,105,109,101>>  K_db_playtime == <<100,98,95,112,108,97,121,116,105,109,101>>  K_db_update == <<100,98,95,117,112,100,97,116,101>>
Stats(fields) ==
  LET ks == {K_artists, K_albums, K_songs, K_uptime, K_playtime, K_db_playtime, K_db_update} IN
  IF \E k \in ks : Count(fields, k) # 1 THEN Unspec ELSE
  LET v(k) == Vals(fields, k)[1]
      cls == {Num(v(k), U64MAX).c : k \in {K_artists, K_albums, K_songs, K_db_update}} \cup {Dur(v(k)).c : k \in {K_uptime, K_playtime, K_db_playtime}} IN
  IF Worst(cls) = "any" THEN Unspec ELSE IF Worst(cls) = "err" THEN Err ELSE
  Ok([artists |-> Num(v(K_artists), U64MAX).v, albums |-> Num(v(K_albums), U64MAX).v, songs |-> Num(v(K_songs), U64MAX).v, db_update |-> Num(v(K_db_update), U64MAX).v,
      uptime |-> Dur(v(K_uptime)).v, playtime |-> Dur(v(K_playtime)).v, db_playtime |-> Dur(v(K_db_playtime)).v])

\* ---- count (plain): songs, playtime
CountPlain(fields) ==
  IF Count(fields, K_songs) # 1 \/ Count(fields, K_playtime) # 1 THEN Unspec ELSE
  LET s == Num(Vals(fields, K_songs)[1], U64MAX)  p == Dur(Vals(fields, K_playtime)[1])  w == Worst({s.c, p.c}) IN
  IF w = "any" THEN Unspec ELSE IF w = "err" THEN Err ELSE Ok([songs |-> s.v, playtime |-> p.v])

\* ---- count grouped by tag g: repeated triples  g: name / songs: n / playtime: t  (songs and playtime in either order)
RECURSIVE Groups(_, _, _, _)
Groups(fields, i, g, acc) ==     \* acc: [c, v]
  IF i > Len(fields) THEN acc
  ELSE IF i + 2 > Len(fields) \/ LowerS(fields[i][1]) # LowerS(g) THEN [c |-> "any", v |-> <<>>]
  ELSE LET a == fields[i + 1]  b == fields[i + 2] IN
       IF {a[1], b[1]} # {K_songs, K_playtime} THEN [c |-> "any", v |-> <<>>]
       ELSE LET sv == IF a[1] = K_songs THEN a[2] ELSE b[2]  pv == IF a[1] = K_playtime THEN a[2] ELSE b[2]
                s == Num(sv, U64MAX)  p == Dur(pv)  w == Worst({acc.c, s.c, p.c}) IN
            Groups(fields, i + 3, g, [c |-> w, v |-> Append(acc.v, <<fields[i][2], s.v, p.v>>)])
CountGrouped(fields, g) ==
  \* the server spells the group line exactly as the tag's protocol name; another spelling is not its reply
  IF \E i \in 1..Len(fields) : LowerS(fields[i][1]) = LowerS(g) /\ fields[i][1] # g THEN Unspec ELSE
  LET r == Groups(fields, 1, g, [c |-> "ok", v |-> <<>>]) IN IF r.c = "any" THEN Unspec ELSE IF r.c = "err" THEN Err ELSE Ok(r.v)

\* ---- list TAG [group G1 [group G2]]: lines  G1: x / G2: y / TAG: value ...; a value belongs to the most recent group values
RECURSIVE GList(_, _, _, _, _, _)
GList(fields, i, tag, gs, cur, acc) ==
  IF i > Len(fields) THEN acc
  ELSE LET k == fields[i][1]  v == fields[i][2] IN
       IF k = tag THEN GList(fields, i + 1, tag, gs, cur, Append(acc, <<v, cur>>))
       ELSE LET S == {j \in 1..Len(gs) : gs[j] = k} IN
            IF S = {} THEN GList(fields, i + 1, tag, gs, cur, acc)
            ELSE GList(fields, i + 1, tag, gs, [cur EXCEPT ![CHOOSE j \in S : \A x \in S : j <= x] = v], acc)
ListReply(fields, tag, gs) ==
  \* well-formed: only the listed tag and the grouping tags occur, spelled as their protocol names
  IF \E i \in 1..Len(fields) : fields[i][1] \notin ({tag} \cup {gs[j] : j \in 1..Len(gs)}) THEN Unspec
  ELSE Ok([values |-> Vals(fields, tag), grouped |-> GList(fields, 1, tag, gs, [j \in 1..Len(gs) |-> <<>>], <<>>), raw |-> fields])

\* ---- listplaylists: pairs playlist / Last-Modified
RECURSIVE Pairs(_, _, _, _, _)
Pairs(fields, i, k1, k2, acc) ==
  IF i > Len(fields) THEN [c |-> "ok", v |-> acc]
  ELSE IF i + 1 > Len(fields) \/ fields[i][1] # k1 \/ fields[i + 1][1] # k2 THEN [c |-> "any", v |-> <<>>]
  ELSE Pairs(fields, i + 2, k1, k2, Append(acc, <<fields[i][2], fields[i + 1][2]>>))
Playlists(fields, chrono) == LET r == Pairs(fields, 1, K_playlist, K_LastModified, <<>>) IN
                             IF r.c = "any" THEN Unspec
                             ELSE LET cl == {TsClass(r.v[j][2], chrono) : j \in 1..Len(r.v)} IN
                                  IF "any" \in cl THEN Unspec ELSE IF "err" \in cl THEN Err ELSE Ok(r.v)
K_channel == <<99,104,97,110,110,101,108>>  K_message == <<109,101,115,115,97,103,101>>
Messages(fields) == LET r == Pairs(fields, 1, K_channel, K_message, <<>>) IN IF r.c = "any" THEN Unspec ELSE Ok(r.v)
Channels(fields) == IF \E i \in 1..Len(fields) : fields[i][1] # K_channel THEN Unspec ELSE Ok(Vals(fields, K_channel))

\* ---- stickers: "sticker: name=value" (the value may contain '=')
K_sticker == <<115,116,105,99,107,101,114>>
SplitEq(v) == LET p == IndexOf(v, 61) IN <<SubSeq(v, 1, p - 1), SubSeq(v, p + 1, Len(v))>>
StickerGet(fields) == IF Len(fields) # 1 \/ fields[1][1] # K_sticker THEN Unspec
                      ELSE IF IndexOf(fields[1][2], 61) = 0 THEN Err ELSE Ok(SplitEq(fields[1][2])[2])
\* a map: later lines with the same name replace earlier ones
StickerList(fields) ==
  IF \E i \in 1..Len(fields) : fields[i][1] # K_sticker THEN Unspec
  ELSE IF \E i \in 1..Len(fields) : IndexOf(fields[i][2], 61) = 0 THEN Err
  ELSE LET names == {SplitEq(fields[i][2])[1] : i \in 1..Len(fields)} IN
       Ok({<<nm, SplitEq(fields[CHOOSE i \in 1..Len(fields) : SplitEq(fields[i][2])[1] = nm /\ \A j \in (i + 1)..Len(fields) : SplitEq(fields[j][2])[1] # nm][2])[2]>> : nm \in names})
\* sticker find: pairs file / sticker; map file -> value
StickerFind(fields) ==
  LET r == Pairs(fields, 1, K_file, K_sticker, <<>>) IN
  IF r.c = "any" THEN Unspec
  ELSE IF \E j \in 1..Len(r.v) : IndexOf(r.v[j][2], 61) = 0 THEN Err
  ELSE LET files == {r.v[j][1] : j \in 1..Len(r.v)} IN
       Ok({<<f, SplitEq(r.v[CHOOSE j \in 1..Len(r.v) : r.v[j][1] = f /\ \A x \in (j + 1)..Len(r.v) : r.v[x][1] # f][2])[2]>> : f \in files})

\* ---- single-number replies
OneNum(fields, k) == IF Count(fields, k) # 1 THEN Unspec ELSE LET x == Num(Vals(fields, k)[1], U64MAX) IN IF x.c = "any" THEN Unspec ELSE IF x.c = "err" THEN Err ELSE Ok(x.v)
K_tagtype == <<116,97,103,116,121,112,101>>
K_rgm == <<114,101,112,108,97,121,95,103,97,105,110,95,109,111,100,101>>
RgStatus(fields) == IF Count(fields, K_rgm) # 1 THEN Unspec
                    ELSE IF Vals(fields, K_rgm)[1] \in {<<111,102,102>>, <<116,114,97,99,107>>, <<97,108,98,117,109>>, <<97,117,116,111>>} THEN Ok(Vals(fields, K_rgm)[1]) ELSE Err
K_size == <<115,105,122,101>>  K_type == <<116,121,112,101>>
Art(fields, bin) == IF bin = None THEN Ok([some |-> FALSE])
                    ELSE IF Count(fields, K_size) # 1 \/ Count(fields, K_type) > 1 THEN Unspec
                    ELSE LET s == Num(Vals(fields, K_size)[1], U64MAX) IN IF s.c = "any" THEN Unspec ELSE IF s.c = "err" THEN Err
                         ELSE Ok([some |-> TRUE, size |-> s.v, mime |-> Opt(fields, K_type), data |-> bin[1]])
=============================================================================
