-------------------------------- MODULE Frame --------------------------------
\* A response frame as the ordered multimap over the lines the server sent (C19), and a response as its
\* successful frames followed by its error.  The state is the ABSTRACT collection (remaining pairs in wire
\* order, optional payload); the code's vector-with-holes is what is being tested, not modelled.
EXTENDS Integers, Sequences, FiniteSets

None == <<>>                       \* absent value
Some(x) == <<x>>

\* ---- frame operations: each returns [res, live, bin]
R(res, live, bin) == [res |-> res, live |-> live, bin |-> bin]
FirstIdx(live, k) == LET S == {i \in 1..Len(live) : live[i][1] = k} IN IF S = {} THEN 0 ELSE CHOOSE i \in S : \A j \in S : i <= j
Remove(s, i) == SubSeq(s, 1, i - 1) \o SubSeq(s, i + 1, Len(s))

Find(live, bin, k) == LET i == FirstIdx(live, k) IN R(IF i = 0 THEN None ELSE Some(live[i][2]), live, bin)
Get(live, bin, k)  == LET i == FirstIdx(live, k) IN IF i = 0 THEN R(None, live, bin) ELSE R(Some(live[i][2]), Remove(live, i), bin)
TakeBinary(live, bin) == R(bin, live, None)
FieldsLen(live, bin) == R(<<Len(live)>>, live, bin)
IsEmpty(live, bin)   == R(<<Len(live) = 0 /\ bin = None>>, live, bin)
HasBinary(live, bin) == R(<<bin # None>>, live, bin)
BinaryRef(live, bin) == R(bin, live, bin)

\* ---- double-ended iteration over a sequence: moves is a sequence of "f" (next) / "b" (next_back);
\* result: the sequence of items yielded (None once exhausted - and it stays exhausted: fused)
RECURSIVE Walk(_, _, _)
Walk(items, moves, acc) ==
  IF moves = <<>> THEN acc
  ELSE IF Head(moves) = "l" THEN Append(acc, IF items = <<>> THEN None ELSE Some(items[Len(items)]))      \* last(): consumes the iterator
  ELSE IF Head(moves) \in {"n1", "n2"} THEN                                                               \* nth(k)
       LET k == IF Head(moves) = "n1" THEN 1 ELSE 2 IN
       IF Len(items) > k THEN Walk(SubSeq(items, k + 2, Len(items)), Tail(moves), Append(acc, Some(items[k + 1])))
       ELSE Walk(<<>>, Tail(moves), Append(acc, None))
  ELSE IF items = <<>> THEN Walk(items, Tail(moves), Append(acc, None))
  ELSE IF Head(moves) = "f" THEN Walk(Tail(items), Tail(moves), Append(acc, Some(Head(items))))
  ELSE Walk(SubSeq(items, 1, Len(items) - 1), Tail(moves), Append(acc, Some(items[Len(items)])))
Iter(live, bin, moves) == R(Walk(live, moves, <<>>), live, bin)

\* owning iterator: moves may also contain "t" (IntoIter::take_binary); consumes the frame
RECURSIVE WalkOwned(_, _, _, _)
WalkOwned(items, bin, moves, acc) ==
  IF moves = <<>> THEN acc
  ELSE IF Head(moves) = "t" THEN WalkOwned(items, None, Tail(moves), Append(acc, <<"bin", bin>>))
  ELSE IF Head(moves) = "l" THEN Append(acc, <<"item", IF items = <<>> THEN None ELSE Some(items[Len(items)])>>)
  ELSE IF Head(moves) \in {"n1", "n2"} THEN
       LET k == IF Head(moves) = "n1" THEN 1 ELSE 2 IN
       IF Len(items) > k THEN WalkOwned(SubSeq(items, k + 2, Len(items)), bin, Tail(moves), Append(acc, <<"item", Some(items[k + 1])>>))
       ELSE WalkOwned(<<>>, bin, Tail(moves), Append(acc, <<"item", None>>))
  ELSE IF items = <<>> THEN WalkOwned(items, bin, Tail(moves), Append(acc, <<"item", None>>))
  ELSE IF Head(moves) = "f" THEN WalkOwned(Tail(items), bin, Tail(moves), Append(acc, <<"item", Some(Head(items))>>))
  ELSE WalkOwned(SubSeq(items, 1, Len(items) - 1), bin, Tail(moves), Append(acc, <<"item", Some(items[Len(items)])>>))

\* ---- responses: frames (identified by their tag) then the error; moves over {"n": next, "b": next_back, "s": size_hint}
RECURSIVE WalkResp(_, _, _, _)
WalkResp(frames, err, moves, acc) ==     \* frames: seq of tags; err: None | Some(code)
  IF moves = <<>> THEN acc
  ELSE LET m == Head(moves)  len == Len(frames) + (IF err = None THEN 0 ELSE 1) IN
    IF m = "s" THEN WalkResp(frames, err, Tail(moves), Append(acc, <<"size", len>>))
    ELSE IF m \in {"t1", "t2", "t3", "r1", "r2"} THEN       \* nth(k) / nth_back(k): skip k items from that end, yield the next, or nothing if fewer are left
         LET it == [j \in 1..Len(frames) |-> <<"ok", frames[j]>>] \o (IF err = None THEN <<>> ELSE <<<<"err", err[1]>>>>)
             k == IF m \in {"t1", "r1"} THEN 1 ELSE IF m \in {"t2", "r2"} THEN 2 ELSE 3
             front == m \in {"t1", "t2", "t3"}
             hit == Len(it) > k
             res == IF ~hit THEN <<"none", 0>> ELSE IF front THEN it[k + 1] ELSE it[Len(it) - k]
             rest == IF ~hit THEN <<>> ELSE IF front THEN SubSeq(it, k + 2, Len(it)) ELSE SubSeq(it, 1, Len(it) - k - 1)
             restErr == rest # <<>> /\ rest[Len(rest)][1] = "err"
             fr == [j \in 1..(Len(rest) - (IF restErr THEN 1 ELSE 0)) |-> rest[j][2]] IN
         WalkResp(fr, IF restErr THEN err ELSE None, Tail(moves), Append(acc, res))
    ELSE IF m = "n" THEN
         (IF frames # <<>> THEN WalkResp(Tail(frames), err, Tail(moves), Append(acc, <<"ok", Head(frames)>>))
          ELSE IF err # None THEN WalkResp(frames, None, Tail(moves), Append(acc, <<"err", err[1]>>))
          ELSE WalkResp(frames, err, Tail(moves), Append(acc, <<"none", 0>>)))
    ELSE (IF err # None THEN WalkResp(frames, None, Tail(moves), Append(acc, <<"err", err[1]>>))
          ELSE IF frames # <<>> THEN WalkResp(SubSeq(frames, 1, Len(frames) - 1), err, Tail(moves), Append(acc, <<"ok", frames[Len(frames)]>>))
          ELSE WalkResp(frames, err, Tail(moves), Append(acc, <<"none", 0>>)))

\* one operation [op, k, moves] applied to (live, bin)
Apply(live, bin, o) ==
  CASE o.op = "find" -> Find(live, bin, o.k)
    [] o.op = "get" -> Get(live, bin, o.k)
    [] o.op = "take_binary" -> TakeBinary(live, bin)
    [] o.op = "fields_len" -> FieldsLen(live, bin)
    [] o.op = "is_empty" -> IsEmpty(live, bin)
    [] o.op = "has_binary" -> HasBinary(live, bin)
    [] o.op = "binary" -> BinaryRef(live, bin)
    [] o.op = "iter" -> Iter(live, bin, o.moves)
    [] OTHER -> R(None, live, bin)
=============================================================================
