------------------------------ MODULE FrameTrace ------------------------------
\* Validation of the real Frame / Fields / IntoIter / Response / FramesRef / Frames (C19): every record holds a
\* frame (built by the real parser), the operations applied and the results the real code returned; TLC replays
\* the operations through the abstract multimap of Frame.tla and compares step by step.
EXTENDS Frame, TLC, Json, IOUtils, SequencesExt
Recs == ndJsonDeserialize(IOEnv.TRACE)
VARIABLE i
vars == <<i>>

JOp(o) == [op |-> o.op, k |-> o.k, moves |-> o.moves]
RECURSIVE Replay(_, _, _, _)
\* returns the index of the first operation whose recorded result differs from the model's (0 = none), and the final state
Replay(ops, k, live, bin) ==
  IF k > Len(ops) THEN [bad |-> 0, live |-> live, bin |-> bin]
  ELSE LET r == Apply(live, bin, JOp(ops[k])) IN
       IF r.res # ops[k].res THEN [bad |-> k, live |-> live, bin |-> bin]
       ELSE Replay(ops, k + 1, r.live, r.bin)

FrameViols(r) ==
  LET rp == Replay(r.ops, 1, r.frame.fields, r.frame.bin) IN
  IF rp.bad > 0 THEN {<<"C19", "frame operation result differs from the ordered multimap of the lines the server sent", r.ops[rp.bad].op>>}
  ELSE (IF r.owned = WalkOwned(rp.live, rp.bin, r.owned_moves, <<>>) THEN {} ELSE {<<"C19", "owning iterator does not yield the remaining pairs in wire order", "into_iter">>})
       \cup (IF r.via_ref = rp.live THEN {} ELSE {<<"C19", "borrowed IntoIterator does not yield the remaining pairs in wire order", "ref_iter">>})
       \cup (IF r.clone_eq THEN {} ELSE {<<"C19", "a frame is not equal to its clone", "eq">>})

RespViols(r) ==
  LET frames == [k \in 1..r.nframes |-> k]
      err == IF r.err THEN Some(7) ELSE None
      exp == WalkResp(frames, err, r.moves, <<>>) IN
  (IF r.borrowed = exp THEN {} ELSE {<<"C19", "borrowed frames iterator: order / error position / size hints differ from frames-then-error", "frames_ref">>})
  \cup (IF r.owned = exp THEN {} ELSE {<<"C19", "owned frames iterator: order / error position / size hints differ from frames-then-error", "frames">>})
  \cup (IF r.summary.is_error = r.err /\ r.summary.is_success = ~r.err /\ r.summary.successful_frames = r.nframes
           /\ r.summary.count = r.nframes + (IF r.err THEN 1 ELSE 0)
           /\ r.summary.single = (IF r.nframes >= 1 THEN <<"ok", 1>> ELSE <<"err", 7>>) THEN {}
        ELSE {<<"C19", "is_error / is_success / successful_frames / into_single_frame disagree with the response", "summary">>})

Init == i = 0
Next == /\ i < Len(Recs) /\ i' = i + 1
        /\ LET r == Recs[i + 1]
               vs == IF r.e = "frame" THEN FrameViols(r) ELSE IF r.e = "resp" THEN RespViols(r)
                     ELSE IF r.e = "panic" THEN {<<"C19", "a frame / response operation panicked", "panic">>}
                     ELSE IF r.e = "harness_error" THEN {<<"HARNESS", "harness could not build the frame", "">>} ELSE {} IN
           IF vs # {} THEN PrintT(<<"VIOL", r.id, i + 1, SetToSeq(vs)>>) ELSE TRUE
Spec == Init /\ [][Next]_vars
Accepted == IF TLCGet("stats").diameter - 1 = Len(Recs) THEN TRUE
            ELSE PrintT(<<"UNMATCHED", TLCGet("stats").diameter, Len(Recs)>>) /\ FALSE
=============================================================================
