------------------------------ MODULE Tokenizer ------------------------------
\* MPD's request tokenizer, transcribed from MPD's util/Tokenizer.cxx and the line handling
\* around it (client/Process.cxx, command/AllCommands.cxx::command_process) as index-based
\* operators over byte sequences (bytes are integers 0..255).  This is the *peer's* decoder:
\* the client's encoder is judged by what this module reads from the bytes it wrote.
\*
\*   valid_word_first_char = letter          valid_word_char     = letter | digit | '_'
\*   valid_unquoted_char   = > 0x20, not " and not '        (NextUnquoted: NO unescaping)
\*   NextString: " ... " with \x -> x, "Missing closing quote", "Space expected after closing quote"
\*   whitespace = 0x01..0x20; a NUL ends the line (C string); at most 15 arguments after the name
EXTENDS Naturals, Sequences, FiniteSets, TLC

IsWsOrNull(c) == c <= 32
IsWs(c) == c > 0 /\ c <= 32
Alpha(c) == (c >= 65 /\ c <= 90) \/ (c >= 97 /\ c <= 122)
Digit(c) == c >= 48 /\ c <= 57
WordChar(c) == Alpha(c) \/ Digit(c) \/ c = 95
UnqChar(c) == c > 32 /\ c # 34 /\ c # 39
Lower(c) == IF c >= 65 /\ c <= 90 THEN c + 32 ELSE c
LowerS(s) == [i \in 1..Len(s) |-> Lower(s[i])]

RECURSIVE SkipWs(_, _)
SkipWs(s, i) == IF i <= Len(s) /\ IsWs(s[i]) THEN SkipWs(s, i + 1) ELSE i

\* what the server's C code sees of one line (without the LF)
RECURSIVE RStrip(_, _)
RStrip(s, n) == IF n > 0 /\ IsWsOrNull(s[n]) THEN RStrip(s, n - 1) ELSE n
RECURSIVE FirstNul(_, _)
FirstNul(s, i) == IF i > Len(s) THEN 0 ELSE IF s[i] = 0 THEN i ELSE FirstNul(s, i + 1)
Eff(line) == LET t == SubSeq(line, 1, RStrip(line, Len(line)))  z == FirstNul(t, 1) IN IF z = 0 THEN t ELSE SubSeq(t, 1, z - 1)

Fail(w) == [ok |-> FALSE, tok |-> <<>>, next |-> 0, why |-> w]
Tok(t, n) == [ok |-> TRUE, tok |-> t, next |-> n, why |-> ""]

RECURSIVE WordFrom(_, _, _)
WordFrom(s, i, j) == IF j > Len(s) THEN Tok(SubSeq(s, i, Len(s)), Len(s) + 1)
                     ELSE IF IsWs(s[j]) THEN Tok(SubSeq(s, i, j - 1), SkipWs(s, j + 1))
                     ELSE IF ~WordChar(s[j]) THEN Fail("Invalid word character")
                     ELSE WordFrom(s, i, j + 1)
NextWord(s, i) == IF ~Alpha(s[i]) THEN Fail("Letter expected") ELSE WordFrom(s, i, i + 1)

RECURSIVE UnqFrom(_, _, _)
UnqFrom(s, i, j) == IF j > Len(s) THEN Tok(SubSeq(s, i, Len(s)), Len(s) + 1)
                    ELSE IF IsWs(s[j]) THEN Tok(SubSeq(s, i, j - 1), SkipWs(s, j + 1))
                    ELSE IF ~UnqChar(s[j]) THEN Fail("Invalid unquoted character")
                    ELSE UnqFrom(s, i, j + 1)
RECURSIVE StrFrom(_, _, _)
StrFrom(s, j, acc) == IF j > Len(s) THEN Fail("Missing closing quote")
                      ELSE IF s[j] = 34 THEN
                           (IF j + 1 > Len(s) \/ IsWsOrNull(s[j + 1]) THEN Tok(acc, SkipWs(s, j + 1)) ELSE Fail("Space expected after closing quote"))
                      ELSE IF s[j] = 92 THEN
                           (IF j + 1 > Len(s) THEN Fail("Missing closing quote") ELSE StrFrom(s, j + 2, Append(acc, s[j + 1])))
                      ELSE StrFrom(s, j + 1, Append(acc, s[j]))
NextParam(s, i) == IF s[i] = 34 THEN StrFrom(s, i + 1, <<>>)
                   ELSE IF ~UnqChar(s[i]) THEN Fail("Invalid unquoted character") ELSE UnqFrom(s, i, i + 1)
RECURSIVE Params(_, _, _, _)
Params(s, i, acc, max) == IF i > Len(s) THEN [ok |-> TRUE, args |-> acc, why |-> ""]
                     ELSE IF Len(acc) >= max THEN [ok |-> FALSE, args |-> acc, why |-> "Too many arguments"]
                     ELSE LET p == NextParam(s, i) IN
                          IF p.ok THEN Params(s, p.next, Append(acc, p.tok), max) ELSE [ok |-> FALSE, args |-> acc, why |-> p.why]
\* max: MPD's limit is 15 arguments after the name (COMMAND_ARGV_MAX 16).  A request with more is refused by the server whatever the
\* client does; checks that judge HOW arguments are written read such a line without the limit (TokenizeAll)
TokenizeN(line, max) == LET s == Eff(line) IN
   IF s = <<>> THEN [ok |-> FALSE, name |-> <<>>, args |-> <<>>, why |-> "No command given"]
   ELSE LET w == NextWord(s, 1) IN
        IF ~w.ok THEN [ok |-> FALSE, name |-> <<>>, args |-> <<>>, why |-> w.why]
        ELSE LET p == Params(s, w.next, <<>>, max) IN [ok |-> p.ok, name |-> w.tok, args |-> p.args, why |-> p.why]
Tokenize(line) == TokenizeN(line, 15)
TokenizeAll(line) == TokenizeN(line, 100000)
=============================================================================
