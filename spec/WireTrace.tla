------------------------------ MODULE WireTrace ------------------------------
\* Trace validation for the wire properties (C02 C03 C09 C10, greeting part of C18): every record is one
\* execution of the REAL Connection::receive / AsyncConnection::receive (or connect) on a byte stream fed
\* in dictated read sizes, recorded by `mpdv wire`.  TLC evaluates the reference decoder of Wire.tla on the
\* recorded bytes and compares.  Violations are printed, the run continues.
EXTENDS Wire, Json, IOUtils, TLC, SequencesExt

Recs == ndJsonDeserialize(IOEnv.TRACE)
VARIABLES i, last      \* last: [stream, out] of the previous record (records of one stream are adjacent)
vars == <<i, last>>

JResp(r) == [frames |-> [k \in 1..Len(r.frames) |-> [fields |-> r.frames[k].fields, bin |-> r.frames[k].bin]], err |-> r.err]
JOut(o) == [k \in 1..Len(o) |-> Out(o[k].t, JResp(o[k].resp))]
JAbs(a) == [k \in 1..Len(a) |-> [r |-> JResp(a[k].r), list |-> a[k].list, junk |-> a[k].junk]]

VI(r, prop, msg) == <<prop, msg, "">>
Tags(r) == IF r.has_abs THEN {"C03"} ELSE IF r.wellformed_cut THEN {"C10"} ELSE {"C09"}

CaseViols(r) ==
  LET out == JOut(r.out)
      ref == RefDecode(r.stream)
      \* cuts of well-formed streams are viable by construction: there the terminal outcome is not left open
      ref2 == IF r.wellformed_cut /\ ref[Len(ref)].t = "ueof|invalid" THEN [ref EXCEPT ![Len(ref)].t = "ueof"] ELSE ref
      okRef == SameOutcomes(ref2, out)
      v1 == IF okRef THEN {} ELSE {VI(r, p, "outcomes of receive differ from the reference meaning of the byte stream") : p \in Tags(r)}
      v2 == IF r.has_abs THEN
               LET abs == JAbs(r.abs)
                   enc == Cat([k \in 1..Len(abs) |-> EncodeJ(abs[k].r, abs[k].list, abs[k].junk)]) IN
               (IF enc # r.stream THEN {<<"HARNESS", "stream is not the encoding of its abstract responses", "">>} ELSE {})
               \cup (IF out = [k \in 1..Len(abs) |-> Out("resp", abs[k].r)] \o <<Out("clean", NoResp)>> THEN {}
                     ELSE {VI(r, "C03", "well-formed server output was not decoded into exactly the responses the server encoded")})
            ELSE {}
      v3 == IF \E k \in 1..Len(r.out) : r.out[k].t = "PANIC" THEN {VI(r, "C09", "receive panicked")} ELSE {}
      v4 == IF r.again = "PANIC" THEN {VI(r, "C09", "receive panicked when called again after a terminal outcome")} ELSE {}
      v5 == IF r.hang THEN {VI(r, "C09", "receive keeps reading after the end of the stream (hang)")} ELSE {}
      v6 == IF ~r.hang /\ r.nreads > r.nchunks + 2 THEN {VI(r, "C09", "more reads than chunks + 2")} ELSE {}
      v7 == IF r.again \in {"clean", "ueof", "invalid", "resp", "PANIC", "skipped", ""} THEN {} ELSE {VI(r, "C09", "unexpected outcome of the extra receive call")}
      v8 == IF last.stream = r.stream /\ last.has /\ last.out # r.out
            THEN {VI(r, "C02", "outcomes depend on the segmentation into reads or on the connection flavour")} ELSE {}
  IN v1 \cup v2 \cup v3 \cup v4 \cup v5 \cup v6 \cup v7 \cup v8

GreetViols(r) ==
  LET g == GreetingRef(r.stream) IN
  (IF r.res = "PANIC" THEN {VI(r, "C09", "connect panicked")} ELSE {})
  \cup (IF r.hang THEN {VI(r, "C09", "connect keeps reading after the end of the stream (hang)")} ELSE {})
  \cup (IF g.ok THEN (IF r.res = "ok" /\ r.version = g.version THEN {} ELSE {VI(r, "C18", "valid greeting not accepted with its version verbatim")})
        ELSE IF g.cut = "" THEN (IF r.res = "invalid" THEN {} ELSE {VI(r, "C18", "malformed greeting not reported as invalid message")})
        ELSE IF g.cut = "viable" THEN (IF r.res = "ueof" THEN {} ELSE {VI(r, "C10", "stream ending inside an otherwise valid greeting not reported as unexpected EOF"),
                                                                     VI(r, "C18", "stream ending inside an otherwise valid greeting not reported as unexpected EOF")})
        ELSE (IF r.res \in {"invalid", "ueof"} THEN {} ELSE {VI(r, "C18", "bad greeting reported neither as invalid message nor as unexpected EOF")}))
  \cup (IF last.stream = r.stream /\ last.has /\ last.out # <<r.res, r.version>>
        THEN {VI(r, "C02", "connect outcome depends on the segmentation or the flavour")} ELSE {})

\* large streams: digests of the projected outcomes are compared across segmentations / flavours and with
\* the expectation the generator derived from the abstract responses it encoded
BigViols(r) ==
  (IF r.hang THEN {VI(r, "C09", "receive keeps reading after the end of the stream (hang)")} ELSE {})
  \cup (IF r.last = "PANIC" \/ r.again = "PANIC" THEN {VI(r, "C09", "receive panicked")} ELSE {})
  \cup (IF r.nresp = r.exp_nresp /\ r.last = r.exp_last /\ r.digest = r.exp_digest THEN {}
        ELSE {VI(r, "C03", "large well-formed stream was not decoded into what the server encoded"), VI(r, "C10", "large stream: wrong terminal outcome or responses")})
  \cup (IF last.stream = <<r.sid>> /\ last.has /\ last.out # <<r.digest, r.nresp, r.last>>
        THEN {VI(r, "C02", "outcomes depend on the segmentation into reads or on the connection flavour")} ELSE {})

Init == i = 0 /\ last = [stream |-> <<>>, out |-> <<>>, has |-> FALSE]
Next == /\ i < Len(Recs)
        /\ i' = i + 1
        /\ LET r == Recs[i + 1]
               vs == IF r.e = "case" THEN CaseViols(r) ELSE IF r.e = "greet" THEN GreetViols(r) ELSE IF r.e = "bigcase" THEN BigViols(r) ELSE {} IN
           /\ last' = IF r.e = "case" THEN [stream |-> r.stream, out |-> r.out, has |-> TRUE]
                      ELSE IF r.e = "greet" THEN [stream |-> r.stream, out |-> <<r.res, r.version>>, has |-> TRUE]
                      ELSE IF r.e = "bigcase" THEN [stream |-> <<r.sid>>, out |-> <<r.digest, r.nresp, r.last>>, has |-> TRUE]
                      ELSE last
           /\ IF vs # {} THEN PrintT(<<"VIOL", r.id, i + 1, SetToSeq(vs)>>) ELSE TRUE
Spec == Init /\ [][Next]_vars
Accepted == IF TLCGet("stats").diameter - 1 = Len(Recs) THEN TRUE
            ELSE PrintT(<<"UNMATCHED", TLCGet("stats").diameter, Len(Recs)>>) /\ FALSE
=============================================================================
