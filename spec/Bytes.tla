------------------------------- MODULE Bytes -------------------------------
\* Byte-level helpers shared by the wire and session specifications.
EXTENDS Integers, Sequences, FiniteSets

\* smallest index i >= from with P(s[i]), or 0
FirstIdx(s, from, P(_)) == LET S == {i \in from..Len(s) : P(s[i])} IN
                           IF S = {} THEN 0 ELSE CHOOSE i \in S : \A j \in S : i <= j
IndexOf(s, from, b) == FirstIdx(s, from, LAMBDA x : x = b)
HasPrefixAt(s, i, p) == i + Len(p) - 1 <= Len(s) /\ \A k \in 1..Len(p) : s[i + k - 1] = p[k]
IsPrefixOf(p, s) == HasPrefixAt(s, 1, p)

\* the standard UTF-8 automaton (Unicode table 3-7), iteratively over positions
Cont(b) == b >= 128 /\ b <= 191
RECURSIVE Utf8From(_, _)
Utf8From(s, i) ==
  IF i > Len(s) THEN TRUE ELSE
  LET b == s[i]  n == Len(s) IN
  IF b <= 127 THEN Utf8From(s, i + 1)
  ELSE IF b >= 194 /\ b <= 223 THEN i + 1 <= n /\ Cont(s[i+1]) /\ Utf8From(s, i + 2)
  ELSE IF b = 224 THEN i + 2 <= n /\ s[i+1] >= 160 /\ s[i+1] <= 191 /\ Cont(s[i+2]) /\ Utf8From(s, i + 3)
  ELSE IF (b >= 225 /\ b <= 236) \/ b = 238 \/ b = 239 THEN i + 2 <= n /\ Cont(s[i+1]) /\ Cont(s[i+2]) /\ Utf8From(s, i + 3)
  ELSE IF b = 237 THEN i + 2 <= n /\ s[i+1] >= 128 /\ s[i+1] <= 159 /\ Cont(s[i+2]) /\ Utf8From(s, i + 3)
  ELSE IF b = 240 THEN i + 3 <= n /\ s[i+1] >= 144 /\ s[i+1] <= 191 /\ Cont(s[i+2]) /\ Cont(s[i+3]) /\ Utf8From(s, i + 4)
  ELSE IF b >= 241 /\ b <= 243 THEN i + 3 <= n /\ Cont(s[i+1]) /\ Cont(s[i+2]) /\ Cont(s[i+3]) /\ Utf8From(s, i + 4)
  ELSE IF b = 244 THEN i + 3 <= n /\ s[i+1] >= 128 /\ s[i+1] <= 143 /\ Cont(s[i+2]) /\ Cont(s[i+3]) /\ Utf8From(s, i + 4)
  ELSE FALSE
ValidUtf8(s) == Utf8From(s, 1)

\* ---- the MPD greeting "OK MPD <version>\n"
GREETING_PREFIX == <<79,75,32,77,80,68,32>>
\* reference verdict on the bytes a peer sent before (possibly) closing:
\*   [ok, version, cut]  cut = "" (a complete first line exists), "viable" (no LF; the bytes are a proper
\*   prefix of some valid greeting), "either" (no LF and no valid completion exists)
GreetingRef(bytes) ==
  LET p == IndexOf(bytes, 1, 10) IN
  IF p = 0 THEN
     [ok |-> FALSE, version |-> <<>>,
      cut |-> IF IsPrefixOf(bytes, GREETING_PREFIX) \/ (IsPrefixOf(GREETING_PREFIX, bytes) /\ \A i \in 8..Len(bytes) : bytes[i] < 128)
              THEN "viable" ELSE "either"]
  ELSE LET line == SubSeq(bytes, 1, p - 1)  ver == SubSeq(bytes, 8, p - 1) IN
       IF IsPrefixOf(GREETING_PREFIX, line) /\ Len(ver) >= 1 /\ ValidUtf8(ver)
       THEN [ok |-> TRUE, version |-> ver, cut |-> ""]
       ELSE [ok |-> FALSE, version |-> <<>>, cut |-> ""]
=============================================================================
