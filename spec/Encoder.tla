------------------------------- MODULE Encoder -------------------------------
\* The request ENCODER as coded (implementation-shaped, like Loop.tla / Receive.tla are for their parts):
\*   mpd_protocol/src/command.rs : validate_command_part, escape_argument, validate_argument,
\*                                 Command::build / add_argument (render, validate, roll back), CommandList::render
\*   mpd_client/src/filter.rs    : escape_filter_value, FilterType::render, Filter::and (flattening), Filter::negate
\* composed with the PEER's decoder (Tokenizer.tla, FilterGrammar.tla).  Design check (EncoderMC.tla): for every builder
\* history within the bounds, what MPD reads from the line is what was built (C06 / C07 / C11 / C13 framing).
\*
\* Named deviations of the code from the ideal (constants, so that "as coded" and "ideal" are both checked):
\*   QuoteWhenEscaping = FALSE : quotes are added only for empty arguments / bytes <= 0x20 although " ' \ are backslash-
\*                               escaped regardless (known finding F-C06-1);  TRUE = quote whenever something is escaped
\*   FilterEscapesBoth = FALSE : escape_filter_value rewrites only the double quote, and into \\" (known finding F-C11-1);
\*                               TRUE = both layers escaped for " and \
EXTENDS FilterGrammar

CONSTANTS QuoteWhenEscaping, FilterEscapesBoth

RECURSIVE Cat(_)
Cat(ss) == IF ss = <<>> THEN <<>> ELSE Head(ss) \o Cat(Tail(ss))
HasByte(s, b) == \E k \in 1..Len(s) : s[k] = b

\* ---------------------------------------------------------------- escape_argument
ShouldEscape(c) == c = 92 \/ c = 34 \/ c = 39
NeedsQuotes(a) == a = <<>> \/ \E k \in 1..Len(a) : a[k] <= 32
EscCount(a) == Cardinality({k \in 1..Len(a) : ShouldEscape(a[k])})
EscBody(a) == Cat([k \in 1..Len(a) |-> IF ShouldEscape(a[k]) THEN <<92, a[k]>> ELSE <<a[k]>>])
EscapeArgument(a) ==
   LET q == NeedsQuotes(a) \/ (QuoteWhenEscaping /\ EscCount(a) > 0) IN
   IF EscCount(a) = 0 /\ ~q THEN a                       \* Cow::Borrowed
   ELSE (IF q THEN <<34>> ELSE <<>>) \o EscBody(a) \o (IF q THEN <<34>> ELSE <<>>)

\* ---------------------------------------------------------------- validation
IsAlphaC(c) == (c >= 65 /\ c <= 90) \/ (c >= 97 /\ c <= 122)
CmdChar(c) == IsAlphaC(c) \/ c = 95
COMMANDLIST == <<99,111,109,109,97,110,100,95,108,105,115,116>>     \* "command_list"
StartsWith(s, p) == Len(s) >= Len(p) /\ SubSeq(s, 1, Len(p)) = p
\* validate_command_part: Ok | Empty | InvalidCharacter | CommandList
NameVerdict(n) == IF n = <<>> THEN "empty"
                  ELSE IF \E k \in 1..Len(n) : ~CmdChar(n[k]) THEN "invalid"
                  ELSE IF n[1] = 95 THEN "invalid"
                  ELSE IF StartsWith(n, COMMANDLIST) THEN "list"
                  ELSE "ok"
ArgValid(r) == ~HasByte(r, 10) /\ ~HasByte(r, 0)          \* validate_argument on the RENDERED bytes

\* ---------------------------------------------------------------- the builder as a state machine (pure step operators)
\* b: [built: BOOLEAN, name, buf (Command.0), args (accepted argument VALUES, ghost), rej (last add was rejected), prev (buf before it)]
Start == [built |-> FALSE, name |-> <<>>, buf |-> <<>>, args |-> <<>>, rej |-> FALSE, prev |-> <<>>]
PBuild(n) == IF NameVerdict(n) = "ok" THEN [Start EXCEPT !.built = TRUE, !.name = n, !.buf = n, !.prev = n] ELSE Start
\* add_argument with an arbitrary renderer output r for the value v (for strings r = EscapeArgument(v))
PAddRendered(b, v, r) ==
   LET grown == b.buf \o <<32>> \o r IN                     \* put_u8(' '); argument.render(buf)
   IF ArgValid(r) THEN [b EXCEPT !.buf = grown, !.args = Append(@, v), !.rej = FALSE, !.prev = b.buf]
   ELSE [b EXCEPT !.rej = TRUE, !.prev = b.buf]             \* split_off + truncate(len_without_arg): buf as before
PAddStr(b, v) == PAddRendered(b, v, EscapeArgument(v))
Line(b) == b.buf \o <<10>>                                  \* Connection::send / CommandList::render of one command

CLOKBEGIN == <<99,111,109,109,97,110,100,95,108,105,115,116,95,111,107,95,98,101,103,105,110>>
CLEND     == <<99,111,109,109,97,110,100,95,108,105,115,116,95,101,110,100>>
RenderList(bufs) == IF Len(bufs) = 1 THEN bufs[1] \o <<10>>
                    ELSE CLOKBEGIN \o <<10>> \o Cat([k \in 1..Len(bufs) |-> bufs[k] \o <<10>>]) \o CLEND \o <<10>>

\* ---------------------------------------------------------------- filters
RECURSIVE Replace(_, _, _)
Replace(s, b, by) == IF s = <<>> THEN <<>> ELSE (IF Head(s) = b THEN by ELSE <<Head(s)>>) \o Replace(Tail(s), b, by)
EscapeFilterValue(v) ==
   IF FilterEscapesBoth
   THEN Cat([k \in 1..Len(v) |-> IF v[k] = 34 THEN <<92,92,92,34>> ELSE IF v[k] = 92 THEN <<92,92,92,92>> ELSE <<v[k]>>])
   ELSE IF HasByte(v, 34) THEN Replace(v, 34, <<92, 92, 34>>) ELSE v          \* value.replace('"', r#"\\""#)
RECURSIVE RenderF(_)
RECURSIVE JoinAnd(_)
JoinAnd(es) == IF Len(es) = 1 THEN RenderF(es[1]) ELSE RenderF(es[1]) \o <<32,65,78,68,32>> \o JoinAnd(Tail(es))
\* e: [k |-> "tag", tag, opb (operator bytes), v] | [k |-> "not", e] | [k |-> "and", es]   (FilterType)
RenderF(e) == IF e.k = "tag" THEN <<40>> \o e.tag \o <<32>> \o e.opb \o <<32, 92, 34>> \o EscapeFilterValue(e.v) \o <<92, 34, 41>>
              ELSE IF e.k = "not" THEN <<40, 33>> \o RenderF(e.e) \o <<41>>
              ELSE <<40>> \o JoinAnd(e.es) \o <<41>>
RenderFilterArg(e) == <<34>> \o RenderF(e) \o <<34>>        \* Filter::render: the whole expression inside one quoted token
\* Filter::and: flattens AND operands of either side into one list
FAnd(x, y) == [k |-> "and", es |-> (IF x.k = "and" THEN x.es ELSE <<x>>) \o (IF y.k = "and" THEN y.es ELSE <<y>>)]
FNot(x) == [k |-> "not", e |-> x]

\* ---------------------------------------------------------------- what the peer reads (the properties)
ArgClasses(a) == {IF c = 34 THEN "dq" ELSE IF c = 39 THEN "sq" ELSE IF c = 92 THEN "bs" ELSE IF c <= 32 THEN "ws" ELSE "plain" : c \in {a[k] : k \in 1..Len(a)}}
\* the cause signature of F-C06-1, as in CodecTrace.KnownCause
KnownC06(a) == ~NeedsQuotes(a) /\ ArgClasses(a) \cap {"dq", "sq", "bs"} # {}
ReadBack(b) == LET t == TokenizeAll(b.buf) IN t.ok /\ t.name = b.name /\ t.args = b.args
\* C06 on the model: the line reads back as name + exactly the accepted arguments, unless an argument has the known cause
RoundTripOK(b) == ~b.built \/ ReadBack(b) \/ \E k \in 1..Len(b.args) : KnownC06(b.args[k])
\* exactness of the signature for single arguments: the model fails exactly on the known cause
SignatureExact(b) == (b.built /\ Len(b.args) = 1) => (~ReadBack(b) <=> (~QuoteWhenEscaping /\ KnownC06(b.args[1])))
\* C07 on the model
OneLine(b) == ~HasByte(b.buf, 10) /\ ~HasByte(b.buf, 0)
Rollback(b) == b.rej => b.buf = b.prev
MpdNameCh(c) == IsAlphaC(c) \/ (c >= 48 /\ c <= 57) \/ c = 95
FramingWordsE == {CLOKBEGIN, CLEND, <<99,111,109,109,97,110,100,95,108,105,115,116,95,98,101,103,105,110>>}
NameContract(n) == NameVerdict(n) = "ok" => (n # <<>> /\ (\A k \in 1..Len(n) : MpdNameCh(n[k])) /\ n \notin FramingWordsE
                                              /\ LET w == NextWord(n, 1) IN w.ok /\ w.tok = n)

\* C11 on the model: mirror tree (what was built) vs. what the two layers of the server parse
RECURSIVE Mirror(_)
Mirror(e) == IF e.k = "tag" THEN [k |-> "tag", tag |-> LowerS(e.tag), op |-> OpName(e.opb), v |-> e.v]
             ELSE IF e.k = "not" THEN [k |-> "not", e |-> Mirror(e.e)]
             ELSE [k |-> "and", es |-> [j \in 1..Len(e.es) |-> Mirror(e.es[j])]]
RECURSIVE FValClasses(_)
FValClasses(e) == IF e.k = "tag" THEN ArgClasses(e.v) ELSE IF e.k = "not" THEN FValClasses(e.e) ELSE UNION {FValClasses(e.es[k]) : k \in 1..Len(e.es)}
FilterReadBack(e) ==
   LET b == PAddRendered(PBuild(<<102,105,110,100>>), <<>>, RenderFilterArg(e))       \* find <filter>
       t == Tokenize(b.buf) IN
   b.rej = FALSE /\ t.ok /\ Len(t.args) = 1
   /\ LET f == ParseFilter(t.args[1]) IN f.ok /\ Norm(f.e, FALSE) = Norm(Mirror(e), FALSE)
FilterAccepted(e) == ArgValid(RenderFilterArg(e))
KnownC11(e) == FValClasses(e) \cap {"dq", "bs"} # {}
FilterOK(e) == ~FilterAccepted(e) \/ FilterReadBack(e) \/ KnownC11(e)
FilterStrict(e) == ~FilterAccepted(e) \/ FilterReadBack(e)
=============================================================================
