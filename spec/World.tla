------------------------------- MODULE World -------------------------------
\* The world the client library lives in, and what the session properties demand of it.
\*
\* Everything is written as PURE operators over one world record `w`, so that exactly the same
\* rules and monitors are used
\*   (a) by Loop.tla   - the implementation-shaped model of the client loop, model-checked
\*                       exhaustively (Unit = TRUE: sizes are abstract half-line units), and
\*   (b) by SessionTrace.tla - validation of ndjson traces recorded from the real client
\*                       (Unit = FALSE: sizes are bytes).
\*
\* Parts: MPD server rules (idle/noidle, command lists, ACK, password, pictures), the byte pipe
\* (wr = written by server, dl = delivered/readable, rd = read by client), callers, faults, and the
\* monitors for C01 C04 C05 C08 C13 C17 C18.  A monitor never stops the run: it appends
\* <<property, message, signature>> to w.viol.
EXTENDS Integers, Sequences, FiniteSets, TLC

CONSTANT Unit        \* TRUE: abstract units (every line = 2 units); FALSE: bytes

\* ------------------------------------------------------------------ lines
Line(t, k, v, a, b) == [t |-> t, k |-> k, v |-> v, a |-> a, b |-> b]
OkL      == Line("ok", <<>>, <<>>, 0, 0)
ListOkL  == Line("lok", <<>>, <<>>, 0, 0)
Fld(k, v) == Line("f", k, v, 0, 0)
AckL(code, idx, cmd, msg) == Line("ack", cmd, msg, code, idx)
BinL(n, dig) == Line("bin", dig, <<>>, n, 0)
BadL(raw) == Line("bad", <<>>, raw, 0, 0)

ECHO    == <<101,99,104,111>>
PAD     == <<112,97,100>>
REQ     == <<114,101,113>>
BOOM    == <<98,111,111,109,32>>
CHANGED == <<99,104,97,110,103,101,100>>
SIZE    == <<115,105,122,101>>
TYPE    == <<116,121,112,101>>
PASSWORD == <<112,97,115,115,119,111,114,100>>
READPICTURE == <<114,101,97,100,112,105,99,116,117,114,101>>
ALBUMART == <<97,108,98,117,109,97,114,116>>

RECURSIVE DecR(_)
DecR(n) == IF n < 10 THEN <<48 + n>> ELSE Append(DecR(n \div 10), 48 + (n % 10))
Dec(n) == DecR(n)
RECURSIVE ValOfDecR(_, _)
ValOfDecR(d, acc) == IF d = <<>> THEN acc ELSE ValOfDecR(Tail(d), acc * 10 + (d[1] - 48))
ValOfDec(d) == ValOfDecR(d, 0)
NDigits(n) == Len(Dec(n))

\* byte length of a line as MPD serialises it
ByteLen(l) ==
  CASE l.t = "ok"  -> 3
    [] l.t = "lok" -> 8
    [] l.t = "f"   -> Len(l.k) + 2 + Len(l.v) + 1
    [] l.t = "ack" -> 5 + NDigits(l.a) + 1 + NDigits(l.b) + 3 + Len(l.k) + 2 + Len(l.v) + 1
    [] l.t = "bin" -> 8 + NDigits(l.a) + 1 + l.a + 1
    [] OTHER       -> Len(l.v)          \* bad / greet: raw bytes
LineLen(l) == IF Unit THEN 2 ELSE ByteLen(l)

\* ------------------------------------------------------------------ requests
\* classified client line
CL(k, id, fail, pad) == [k |-> k, id |-> id, fail |-> fail, pad |-> pad]
\* a command inside a request as the caller issued it
Cmd(id, fail, pad) == [id |-> id, fail |-> fail, pad |-> pad, t |-> "req"]
\* typed commands with distinguishable replies (C13 pairing through the real client): t in {"sticker", "update", "addid", "channels"};
\* id is the URI argument (it embeds the request id), empty for channels
CmdT(t, id) == [id |-> id, fail |-> FALSE, pad |-> 0, t |-> t]

\* request ids: traces "cXnYYY" / "cXnYYYxZ" (bytes); model <<c, n, j>>
IdC(id) == IF Unit THEN id[1] ELSE id[2] - 48
IdN(id) == IF Unit THEN id[2] ELSE (id[4] - 48) * 100 + (id[5] - 48) * 10 + (id[6] - 48)
IdWellFormed(id) == IF Unit THEN Len(id) = 3
                    ELSE /\ Len(id) \in {6, 8} /\ id[1] = 99 /\ id[3] = 110
                         /\ \A i \in {2, 4, 5, 6} : id[i] >= 48 /\ id[i] <= 57

\* frame lines / error line the server produces for one ordinary command at list index idx
ExecReq(c, idx) ==
  \* a failing command may already have printed part of its output: those lines precede the ACK and belong to no frame
  IF c.fail THEN [ok |-> FALSE, ls |-> [j \in 1..c.pad |-> Fld(PAD, Dec(j))] \o <<AckL(2, idx, REQ, BOOM \o c.id)>>]
  ELSE [ok |-> TRUE, ls |-> <<Fld(ECHO, c.id)>> \o [j \in 1..c.pad |-> Fld(PAD, Dec(j))]]

K_STICKER == <<115,116,105,99,107,101,114>>
K_UPDATING == <<117,112,100,97,116,105,110,103,95,100,98>>
K_ID == <<73,100>>
K_CHANNEL == <<99,104,97,110,110,101,108>>
\* reply of the typed commands (functions of their argument, so that a mispairing is visible)
ExecT(c) ==
  CASE c.t = "sticker" -> <<Fld(K_STICKER, <<110, 61>> \o c.id)>>                 \* sticker: n=<uri>
    [] c.t = "update" -> <<Fld(K_UPDATING, <<55>>)>>
    [] c.t = "addid" -> <<Fld(K_ID, Dec(Len(c.id)))>>
    [] OTHER -> <<Fld(K_CHANNEL, <<99,49>>), Fld(K_CHANNEL, <<99,50>>)>>
Exec(c, idx) == IF c.t = "req" THEN ExecReq(c, idx) ELSE [ok |-> TRUE, ls |-> ExecT(c)]
\* the typed value the i-th position of a typed list must carry
TypedItem(c) ==
  CASE c.t = "sticker" -> <<"sticker", c.id>>
    [] c.t = "update" -> <<"update", <<55>>>>
    [] c.t = "addid" -> <<"add", Dec(Len(c.id))>>
    [] OTHER -> <<"channels", <<<<99,49>>, <<99,50>>>>>>

\* picture model (C17): cfg.pic = [embedded, file (sizes or -1), mime (bytes or <<>>), hasMime, limit, embedded_ack, file_ack]
Min(a, b) == IF a < b THEN a ELSE b
\* the server may return fewer bytes than the chunk limit (the limit can change between requests): with pic.vary the
\* chunk length depends on the offset; it is always >= 1 while bytes remain
ChunkLen(pic, off, size) == Min(IF pic.vary /\ off % 3 = 1 /\ pic.limit > 1 THEN pic.limit - 1 ELSE pic.limit, size - off)
\* two pictures per server: URIs ending in "_alt.flac" have their own picture (w.pic2) whose bytes carry other tags (tb = 2)
ALTSUFFIX == <<95,97,108,116,46,102,108,97,99>>
IsAlt(uri) == Len(uri) >= Len(ALTSUFFIX) /\ SubSeq(uri, Len(uri) - Len(ALTSUFFIX) + 1, Len(uri)) = ALTSUFFIX
TbFor(uri) == IF IsAlt(uri) THEN 2 ELSE 0
ExecPic(pic, tb, embedded, off, idx, dig(_, _, _)) ==
  LET name == IF embedded THEN READPICTURE ELSE ALBUMART
      size == IF embedded THEN pic.embedded ELSE pic.file
      ack  == IF embedded THEN pic.embedded_ack ELSE pic.file_ack IN
  \* (pic.ackp: the failing command prints `size` / `type` lines before its ACK - an error after partial output is still an error)
  IF ack # 0 THEN [ok |-> FALSE, ls |-> (IF pic.ackp /\ ack # 5 THEN <<Fld(SIZE, Dec(IF size < 0 THEN 0 ELSE size))>> \o (IF embedded /\ pic.hasMime THEN <<Fld(TYPE, pic.mime)>> ELSE <<>>) ELSE <<>>)
                                        \o <<AckL(ack, idx, IF ack = 5 THEN <<>> ELSE name, <<115,99,114,105,112,116,101,100,32,101,114,114,111,114>>)>>]
  ELSE IF size < 0 THEN [ok |-> TRUE, ls |-> <<>>]         \* no picture from this source: an empty reply
  ELSE IF off > size THEN [ok |-> FALSE, ls |-> <<AckL(2, idx, name, <<66,97,100,32,102,105,108,101,32,111,102,102,115,101,116>>)>>]
  ELSE LET n == ChunkLen(pic, off, size) IN
       \* (the protocol fixes no order of `size` and `type`: pic.tfirst puts the type first)
       [ok |-> TRUE, ls |-> (IF embedded /\ pic.hasMime /\ pic.tfirst THEN <<Fld(TYPE, pic.mime), Fld(SIZE, Dec(size))>>
                             ELSE <<Fld(SIZE, Dec(size))>> \o (IF embedded /\ pic.hasMime THEN <<Fld(TYPE, pic.mime)>> ELSE <<>>))
                            \o <<BinL(n, dig((IF embedded THEN 1 ELSE 2) + tb, off, n))>>]

\* ------------------------------------------------------------------ results
Frame(f, bn, bd) == [f |-> f, bn |-> bn, bd |-> bd]
Res(t, frames, code, idx, cmd, msg) == [t |-> t, frames |-> frames, code |-> code, idx |-> idx, cmd |-> cmd, msg |-> msg, kind |-> "", items |-> <<>>]

\* what a complete reply means to a caller: frames in order, then the error if any
RECURSIVE ParseReply(_, _, _, _, _)
ParseReply(ls, i, done, cur, seenLok) ==
  IF i > Len(ls) THEN Res("incomplete", done, 0, 0, <<>>, <<>>)
  ELSE LET l == ls[i] IN
    CASE l.t = "f"   -> ParseReply(ls, i + 1, done, Frame(Append(cur.f, <<l.k, l.v>>), cur.bn, cur.bd), seenLok)
      [] l.t = "bin" -> ParseReply(ls, i + 1, done, Frame(cur.f, l.a, l.k), seenLok)
      [] l.t = "lok" -> ParseReply(ls, i + 1, Append(done, cur), Frame(<<>>, -1, <<>>), TRUE)
      [] l.t = "ok"  -> Res("ok", IF seenLok THEN done ELSE <<cur>>, 0, 0, <<>>, <<>>)
      [] l.t = "ack" -> Res("ack", done, l.a, l.b, l.k, l.v)
      [] OTHER       -> Res("invalid", done, 0, 0, <<>>, <<>>)
ResultOf(ls) == ParseReply(ls, 1, <<>>, Frame(<<>>, -1, <<>>), FALSE)

SameRes(a, b) == /\ a.t = b.t /\ a.frames = b.frames /\ a.code = b.code /\ a.idx = b.idx
                 /\ a.cmd = b.cmd /\ a.msg = b.msg

\* ------------------------------------------------------------------ the world record
InitW(hasPw, pw, srvPw, hasSrvPw, auth, pic) ==
  [ phase |-> "hs", hasPw |-> hasPw, pw |-> pw, srvPw |-> srvPw, hasSrvPw |-> hasSrvPw, auth |-> auth, pic |-> pic, pic2 |-> pic,
    mode |-> "ready", pend |-> <<>>, listAcc |-> <<>>, silent |-> FALSE,
    out |-> <<>>, reps |-> <<>>, wr |-> 0, dl |-> 0, rd |-> 0,
    nlines |-> 0, lastK |-> "", nwritesAfterReject |-> 0,
    reqs |-> <<>>, curList |-> <<>>,
    alts |-> {[ow |-> <<>>, lx |-> 0]}, lxRep |-> 0, tmo |-> FALSE,
    fault |-> "", poison |-> -1, lostAt |-> -1, obs |-> {}, surfaced |-> FALSE,
    nClosingEv |-> 0, evEnded |-> FALSE, evAfterEnd |-> FALSE, evAfterClosing |-> FALSE, evDropped |-> FALSE, evLazy |-> FALSE, idleExtra |-> 0,
    handles |-> 0, ioDropped |-> FALSE, connected |-> "", nconf |-> 0, desync |-> FALSE, wst |-> FALSE,
    art |-> <<>>,
    viol |-> <<>> ]

V(w, prop, msg, sig) == [w EXCEPT !.viol = Append(@, <<prop, msg, sig>>)]
Chk(w, ok, prop, msg) == IF ok THEN w ELSE V(w, prop, msg, "")

\* ------------------------------------------------------------------ server output
\* append a reply (sequence of lines) of a given kind; ri = index of the request in w.reqs it answers (0 if none)
Emit(w, kind, ls, ri) ==
  IF ls = <<>> THEN w ELSE
  LET RECURSIVE Ends(_, _)
      Ends(i, off) == IF i > Len(ls) THEN <<>> ELSE <<off + LineLen(ls[i])>> \o Ends(i + 1, off + LineLen(ls[i]))
      ends == Ends(1, w.wr)
      rix  == Len(w.reps) + 1
      newOut == [i \in 1..Len(ls) |-> [l |-> ls[i], end |-> ends[i], rep |-> rix]]
      rep  == [kind |-> kind, first |-> Len(w.out) + 1, last |-> Len(w.out) + Len(ls), start |-> w.wr, end |-> ends[Len(ls)], req |-> ri]
      owedNew == IF kind = "idle"
                 THEN LET idxs == {i \in 1..Len(ls) : ls[i].t = "f" /\ ls[i].k = CHANGED} IN
                      [j \in 1..Cardinality(idxs) |->
                         LET i == CHOOSE x \in idxs : Cardinality({y \in idxs : y < x}) = j - 1 IN
                         [name |-> ls[i].v, lineEnd |-> ends[i], replyEnd |-> ends[Len(ls)], exc |-> FALSE, idx |-> i]]
                 ELSE <<>>
  IN [w EXCEPT !.out = @ \o newOut, !.reps = Append(@, rep), !.wr = ends[Len(ls)],
             !.alts = {[a EXCEPT !.ow = @ \o owedNew] : a \in @}]

\* (w.idleExtra: a reply to idle may carry fields other than `changed` - newer servers add fields; 1 = one after the first
\*  changed line, 2 = one before all of them)
PARTITIONK == <<112,97,114,116,105,116,105,111,110>>
DEFAULTV == <<100,101,102,97,117,108,116>>
IdleReply(w) == LET ch == [i \in 1..Len(w.pend) |-> Fld(CHANGED, w.pend[i])]
                    ex == Fld(PARTITIONK, DEFAULTV)
                    ls == IF w.idleExtra = 1 /\ ch # <<>> THEN <<ch[1], ex>> \o Tail(ch)
                          ELSE IF w.idleExtra = 2 THEN <<ex>> \o ch ELSE ch IN
                Emit([w EXCEPT !.pend = <<>>, !.mode = "ready", !.idleExtra = 0], "idle", ls \o <<OkL>>, 0)

\* environment: subsystems S (sequence of names) change on the server
WChange(w, S) ==
  LET fresh == SelectSeq(S, LAMBDA x : \A i \in 1..Len(w.pend) : w.pend[i] # x)
      RECURSIVE Dedup(_, _)
      Dedup(s, acc) == IF s = <<>> THEN acc ELSE Dedup(Tail(s), IF \E i \in 1..Len(acc) : acc[i] = Head(s) THEN acc ELSE Append(acc, Head(s)))
      w1 == [w EXCEPT !.pend = @ \o Dedup(fresh, <<>>)] IN
  IF w1.mode = "idle" /\ ~w1.silent /\ w1.pend # <<>> THEN IdleReply(w1) ELSE w1
WChangeX(w, S, x) == WChange([w EXCEPT !.idleExtra = x], S)

\* ------------------------------------------------------------------ request bookkeeping
ReqIndex(w, c, n) == IF \E i \in 1..Len(w.reqs) : w.reqs[i].c = c /\ w.reqs[i].n = n
                     THEN CHOOSE i \in 1..Len(w.reqs) : w.reqs[i].c = c /\ w.reqs[i].n = n ELSE 0

WIssue(w, c, n, kind, cmds, uri) ==
  LET w1 == Chk(w, ReqIndex(w, c, n) = 0, "HARNESS", "request issued twice") IN
  [w1 EXCEPT !.reqs = Append(@, [c |-> c, n |-> n, kind |-> kind, cmds |-> cmds, uri |-> uri, st |-> "p", rep |-> 0, seen |-> (kind = "art"),
                                 wasAlive |-> (w.fault = "" /\ w.handles > 0)]),
             !.tmo = FALSE]

\* the server has received a complete request (one command, or a whole list): cmds as read from the wire
\* returns the world with the order/identity checks applied and the request marked seen; sets .lastReq
ServerSees(w, cmds) ==
  LET id == cmds[1].id IN
  IF ~IdWellFormed(id) THEN [w |-> V(w, "C01", "server received a request nobody issued", ""), ri |-> 0]
  ELSE
  LET c == IdC(id)  n == IdN(id)  ri == ReqIndex(w, c, n) IN
  IF ri = 0 THEN [w |-> V(w, "C01", "server received a request nobody issued", ""), ri |-> 0]
  ELSE
  LET r == w.reqs[ri]
      w1 == Chk(w, ~r.seen, "C01", "request sent to the server twice")
      w2a == Chk(w1, r.cmds = cmds, "C01", "request reached the server with different commands than issued")
      \* (C13) the list the caller issued arrived in pieces: this block holds a proper part of its commands
      w2 == Chk(w2a, ~(Len(cmds) < Len(r.cmds) /\ \E o \in 0..(Len(r.cmds) - Len(cmds)) : SubSeq(r.cmds, o + 1, o + Len(cmds)) = cmds),
                "C13", "a command list was not written as ONE command_list_ok_begin ... command_list_end block holding all its commands")
      \* per-caller order: every earlier request of this caller was already seen
      w3 == Chk(w2, \A j \in 1..Len(w.reqs) : (w.reqs[j].c = c /\ w.reqs[j].n < n) => w.reqs[j].seen,
                "C01", "requests of one caller reached the server out of issue order")
  IN [w |-> [w3 EXCEPT !.reqs[ri].seen = TRUE], ri |-> ri]

\* ------------------------------------------------------------------ client writes one complete line
\* ln: classified line.  Applies C05 / C18 / C01-order monitors and the server's rules.
NoDigest(src, off, n) == <<>>

WCliLineD(w, ln, dig(_, _, _)) ==
  LET first == w.nlines = 0
      w0 == [w EXCEPT !.nlines = @ + 1, !.lastK = ln.k]
      \* --- C18: password first, nothing after a rejection
      w1 == IF first THEN
                (IF w.hasPw THEN Chk(w0, ln.k = "password" /\ ln.id = w.pw, "C18", "first line written is not the password command with the given password")
                 ELSE Chk(w0, ln.k = "idle", "C05", "first line after the greeting is not idle"))
            ELSE w0
      w2 == IF w.phase = "authwait" THEN V(w1, "C18", "line written before the server's verdict on the password was received", "")
            ELSE IF w.phase = "rejected" THEN V(w1, "C18", "line written after the password was rejected", "")
            ELSE IF w.phase = "hs" /\ ~first THEN w1
            ELSE w1
      \* --- C05: discipline
      w3 == IF w.hasPw /\ w.nlines = 1 /\ w.phase # "rejected" /\ w.phase # "authwait"
            THEN Chk(w2, ln.k = "idle", "C05", "first line after authentication is not idle") ELSE w2
      healthy == w.fault = ""
      \* (after garbage or a refused idle the server still works by its rules: the idle discipline stays judgeable)
      w4a == Chk(w3, ~(healthy \/ w.fault \in {"garbage", "idleack"}) \/ w.mode # "idle" \/ ln.k = "noidle", "C05", "command written while the server waits in idle")
      \* a noidle that crosses an idle reply still in flight is a legal race (the server ignores it); one written after that reply
      \* was read completely is not: the client knows that no idle is pending
      w4 == Chk(w4a, ~(ln.k = "noidle" /\ (healthy \/ w.fault = "idleack") /\ w.phase = "up" /\ w.mode # "idle" /\ w.rd = w.wr /\ ~w.silent), "C05", "noidle written although no idle is pending")
      startsReq == w.mode # "list" /\ ln.k \in {"req", "begin", "pic", "other", "sticker", "update", "addid", "channels"}
      w5 == IF startsReq /\ healthy THEN Chk(w4, w.rd = w.wr, "C05", "request written while earlier server output is still unread (more than one exchange outstanding)") ELSE w4
      w6 == IF ln.k = "idle" /\ w.mode # "idle" /\ healthy THEN Chk(w5, w.rd = w.wr, "C05", "idle written while earlier server output is still unread") ELSE w5
      \* --- F-C04-2 precondition: noidle while an idle reply is partly read with >= 1 complete changed line
      w7 == IF ln.k = "noidle"
            THEN [w6 EXCEPT !.alts = {[a EXCEPT !.ow = [k \in 1..Len(@) |-> IF @[k].lineEnd <= w.rd /\ @[k].replyEnd > w.rd THEN [@[k] EXCEPT !.exc = TRUE] ELSE @[k]]] : a \in @}]
            ELSE w6
  IN
  IF w7.silent THEN w7 ELSE
  \* --- server rules
  IF w7.mode = "list" THEN
     (IF ln.k = "end" THEN
         LET acc == w7.listAcc
             \* a list made of picture commands only (a client may fetch several chunks in one batch): each is executed by the picture
             \* rules at its own list index and recorded as a picture request the server saw; it belongs to no caller-issued request id
             allPic == acc # <<>> /\ \A i \in 1..Len(acc) : acc[i].t = "pic"
             s == IF allPic THEN [w |-> [w7 EXCEPT !.listAcc = <<>>, !.mode = "ready",
                                                   !.art = @ \o [i \in 1..Len(acc) |-> [emb |-> acc[i].fail, off |-> acc[i].pad, uri |-> acc[i].id, at |-> w7.wr]]], ri |-> 0]
                  ELSE ServerSees([w7 EXCEPT !.listAcc = <<>>, !.mode = "ready"], acc)
             RECURSIVE Run(_, _)
             Run(i, lsacc) == IF i > Len(acc) THEN Append(lsacc, OkL)
                              ELSE LET x == IF acc[i].t = "bad" THEN [ok |-> FALSE, ls |-> <<AckL(5, i - 1, <<>>, <<>>)>>]
                                            ELSE IF acc[i].t = "pic" THEN ExecPic(IF IsAlt(acc[i].id) THEN w7.pic2 ELSE w7.pic, TbFor(acc[i].id), acc[i].fail, acc[i].pad, i - 1, dig)
                                            ELSE Exec(acc[i], i - 1) IN
                                   IF x.ok THEN Run(i + 1, lsacc \o x.ls \o <<ListOkL>>) ELSE lsacc \o x.ls
         IN IF acc = <<>> THEN Emit(s.w, "list", <<OkL>>, 0) ELSE Emit(s.w, "list", Run(1, <<>>), s.ri)
      ELSE IF ln.k = "pic" /\ \A i \in 1..Len(w7.listAcc) : w7.listAcc[i].t = "pic" THEN [w7 EXCEPT !.listAcc = Append(@, [id |-> ln.id, fail |-> ln.fail, pad |-> ln.pad, t |-> "pic"])]
      ELSE IF ln.k = "req" THEN [w7 EXCEPT !.listAcc = Append(@, Cmd(ln.id, ln.fail, ln.pad))]
      ELSE IF ln.k \in {"sticker", "update", "addid", "channels"} THEN [w7 EXCEPT !.listAcc = Append(@, CmdT(ln.k, ln.id))]
      ELSE V([w7 EXCEPT !.listAcc = Append(@, CmdT("bad", <<>>))], "C07", "non-request line inside a command list", ""))
  ELSE
  CASE ln.k = "idle"   -> IF w7.pend # <<>> THEN IdleReply(w7) ELSE [w7 EXCEPT !.mode = "idle"]
    [] ln.k = "noidle" -> IF w7.mode = "idle" THEN Emit([w7 EXCEPT !.mode = "ready"], "noidle", <<OkL>>, 0) ELSE w7
    [] ln.k = "begin"  -> [w7 EXCEPT !.mode = "list", !.listAcc = <<>>]
    [] ln.k = "end"    -> V(w7, "C13", "command_list_end without begin", "")
    [] ln.k = "password" ->
         LET good == ~w7.hasSrvPw \/ w7.srvPw = ln.id
             rej  == AckL(3, 0, PASSWORD, <<105,110,99,111,114,114,101,99,116,32,112,97,115,115,119,111,114,100>>) IN
         CASE w7.auth = "ok"  -> Emit([w7 EXCEPT !.phase = "authwait"], "auth", IF good THEN <<OkL>> ELSE <<rej>>, 0)
           [] w7.auth = "ack" -> Emit([w7 EXCEPT !.phase = "authwait"], "auth", <<rej>>, 0)
           [] w7.auth = "ack5" -> Emit([w7 EXCEPT !.phase = "authwait"], "auth", <<AckL(5, 0, <<>>, <<117,110,107,110,111,119,110,32,99,111,109,109,97,110,100>>)>>, 0)
           [] w7.auth = "ack4" -> Emit([w7 EXCEPT !.phase = "authwait"], "auth", <<AckL(4, 0, PASSWORD, <<112,101,114,109,105,115,115,105,111,110,32,100,101,110,105,101,100>>)>>, 0)
           [] w7.auth = "garbage" -> Emit([w7 EXCEPT !.phase = "authwait"], "auth", <<BadL(<<33,98,97,100,10>>)>>, 0)
           [] w7.auth = "partial" -> Emit([w7 EXCEPT !.phase = "authwait", !.silent = TRUE], "auth", <<BadL(<<79>>)>>, 0)
           [] OTHER -> [w7 EXCEPT !.phase = "authwait", !.silent = TRUE]
    [] ln.k = "req"    ->
         LET s == ServerSees([w7 EXCEPT !.mode = "ready"], <<Cmd(ln.id, ln.fail, ln.pad)>>)
             x == ExecReq(Cmd(ln.id, ln.fail, ln.pad), 0) IN
         Emit(s.w, "cmd", IF x.ok THEN Append(x.ls, OkL) ELSE x.ls, s.ri)
    [] ln.k \in {"sticker", "update", "addid", "channels"} ->
         LET s == ServerSees([w7 EXCEPT !.mode = "ready"], <<CmdT(ln.k, ln.id)>>) IN
         Emit(s.w, "cmd", Append(ExecT(CmdT(ln.k, ln.id)), OkL), s.ri)
    [] ln.k = "pic"    ->
         LET x == ExecPic(IF IsAlt(ln.id) THEN w7.pic2 ELSE w7.pic, TbFor(ln.id), ln.fail, ln.pad, 0, dig) IN
         Emit([w7 EXCEPT !.mode = "ready", !.art = Append(@, [emb |-> ln.fail, off |-> ln.pad, uri |-> ln.id, at |-> w7.wr])], "pic", IF x.ok THEN Append(x.ls, OkL) ELSE x.ls, 0)
    \* anything else is not part of a session the harness can ask for: the client corrupted its own output (e.g. a truncated
    \* line glued to the next one).  From here on the simulator and the model may answer differently: conformance is off.
    [] OTHER -> V([w7 EXCEPT !.desync = TRUE], "C05", "the client wrote a line that is not a request of this session (malformed or unknown command)", "")

WCliLine(w, ln) == WCliLineD(w, ln, NoDigest)

\* ------------------------------------------------------------------ pipe
WDeliver(w, n) == Chk([w EXCEPT !.dl = @ + n], w.desync \/ w.dl + n <= w.wr, "HARNESS", "delivered more than the server wrote")
WRead(w, n) ==
  LET w1 == Chk([w EXCEPT !.rd = @ + n], w.desync \/ w.rd + n <= w.dl, "HARNESS", "client read more than was delivered")
      \* garbage observed once the client has read into it
      w2 == IF w.poison >= 0 /\ w.rd + n > w.poison THEN [w1 EXCEPT !.obs = @ \cup {"garbage"}] ELSE w1 IN
  \* C18: the auth verdict has been received completely
  IF w2.phase = "authwait" /\ w2.reps # <<>> /\ w2.reps[Len(w2.reps)].kind = "auth" /\ w2.rd >= w2.reps[Len(w2.reps)].end
  THEN LET l == w2.out[w2.reps[Len(w2.reps)].last].l IN
       [w2 EXCEPT !.phase = IF l.t = "ok" THEN "authed" ELSE IF l.t = "ack" THEN "rejected" ELSE "authwait"]
  ELSE w2

\* position rd is on a response boundary (nothing of a response received but not complete)
AtBoundary(w) == w.rd = 0 \/ \E i \in 1..Len(w.reps) : w.reps[i].end = w.rd

\* ------------------------------------------------------------------ faults (environment)
WFault(w, kind, lost) ==
  LET w1 == [w EXCEPT !.fault = IF @ = "" THEN kind ELSE @, !.tmo = FALSE] IN
  CASE kind = "eof"     -> [w1 EXCEPT !.silent = TRUE, !.lostAt = w.wr - lost]
    \* garbage: a line the parser rejects, followed by a well-formed tail of the same reply (which must not be taken for anything)
    [] kind = "garbage" -> Emit([w1 EXCEPT !.poison = IF @ < 0 THEN w.wr ELSE @], "garbage", <<BadL(<<33,98,97,100,10>>), Fld(<<120>>, <<121>>), OkL>>, 0)
    \* idleack: the server refuses the pending idle with an ACK (e.g. no permission): the connection cannot be used as the client
    \* expects; like garbage it must be surfaced, and nothing of the idle discipline may be violated afterwards
    [] kind = "idleack" -> IF w.mode = "idle" /\ ~w.silent
                           THEN Emit([w1 EXCEPT !.poison = IF @ < 0 THEN w.wr ELSE @, !.mode = "ready"], "garbage",
                                     <<AckL(4, 0, <<105,100,108,101>>, <<110,111,32,112,101,114,109,105,115,115,105,111,110>>)>>, 0)
                           ELSE w
    [] OTHER            -> w1
\* after an eof fault the undelivered bytes are gone: wr is cut back to what was delivered
WFaultCut(w, lost) == [w EXCEPT !.wr = @ - lost]

\* the client observed the end of the stream / an I/O error
\* F-C04-2 has a second face: the lines of a partly received idle reply that were dropped with the cancelled
\* receive are forgotten, so an end of stream at that point looks like a clean close to the client.
WReadEof(w)  == LET dirty == ~AtBoundary(w)
                    afterDrop == \E a \in w.alts : \E k \in 1..Len(a.ow) : a.ow[k].exc /\ a.ow[k].lineEnd <= w.rd /\ w.rd < a.ow[k].replyEnd IN
                Chk([w EXCEPT !.obs = @ \cup {IF dirty THEN (IF afterDrop THEN "eof_dirty_after_drop" ELSE "eof_dirty") ELSE "eof_clean"}],
                    w.fault # "", "HARNESS", "EOF without fault")
WReadErr(w)  == [w EXCEPT !.obs = @ \cup {"read_err"}]
WWriteErr(w) == [w EXCEPT !.obs = @ \cup {"write_err"}]

\* ------------------------------------------------------------------ what the client reports
Poisoned(w, rep) == w.poison >= 0 /\ rep.end > w.poison
\* has the reply of request ri been completely received, intact?
ReplyOf(w, ri) == IF \E i \in 1..Len(w.reps) : w.reps[i].req = ri /\ ri > 0
                  THEN CHOOSE i \in 1..Len(w.reps) : w.reps[i].req = ri ELSE 0
ReplyLines(w, rep) == [i \in 1..(rep.last - rep.first + 1) |-> w.out[rep.first + i - 1].l]

\* ---- C17: album art.  res: t = "art" (code = length, idx = source whose bytes the data equals, msg = MIME, kind = "mime" if present),
\* "art_none", "ack" (server error propagated), or a connection error.  w.art holds the picture requests the server saw.
CeilDiv(a, b) == (a + b - 1) \div b
ArtExpect(pic) ==
  \* [outcome, src (1 embedded / 2 file / 0), size, reqs: expected sequence of <<embedded?, offset>>]
  LET RECURSIVE Offs(_, _)
      Offs(off, size) == IF off >= size THEN <<>> ELSE <<off>> \o Offs(off + ChunkLen(pic, off, size), size)
      Chunks(emb, size) == IF size = 0 THEN <<<<emb, 0>>>> ELSE LET os == Offs(0, size) IN [k \in 1..Len(os) |-> <<emb, os[k]>>]
      fileFlow(pre) ==
        IF pic.file_ack # 0 THEN [o |-> "ack", code |-> pic.file_ack, src |-> 0, size |-> 0, reqs |-> Append(pre, <<FALSE, 0>>)]
        ELSE IF pic.file < 0 THEN [o |-> "none", code |-> 0, src |-> 0, size |-> 0, reqs |-> Append(pre, <<FALSE, 0>>)]
        ELSE [o |-> "art", code |-> 0, src |-> 2, size |-> pic.file, reqs |-> pre \o Chunks(FALSE, pic.file)] IN
  IF pic.embedded_ack = 5 THEN fileFlow(<<<<TRUE, 0>>>>)
  ELSE IF pic.embedded_ack # 0 THEN [o |-> "ack", code |-> pic.embedded_ack, src |-> 0, size |-> 0, reqs |-> <<<<TRUE, 0>>>>]
  ELSE IF pic.embedded < 0 THEN fileFlow(<<<<TRUE, 0>>>>)
  ELSE [o |-> "art", code |-> 0, src |-> 1, size |-> pic.embedded, reqs |-> Chunks(TRUE, pic.embedded)]
WArtResolve(w, ri, res) ==
  LET r == w.reqs[ri]
      mine == SelectSeq(w.art, LAMBDA a : a.uri = r.uri)
      seen == [k \in 1..Len(mine) |-> <<mine[k].emb, mine[k].off>>]
      pic == IF IsAlt(r.uri) THEN w.pic2 ELSE w.pic
      e == ArtExpect(pic) IN
  IF res.t \in {"closed", "proto"} THEN Chk(w, w.fault # "" \/ w.handles = 0 \/ ~r.wasAlive, "C17", "album art failed with a connection error on a healthy connection")
  ELSE IF w.fault # "" THEN w      \* after a fault only C08 applies
  ELSE
  LET w1 == Chk(w, seen = e.reqs, "C17", "album art requests are not the expected commands at strictly increasing offsets (offset = bytes received so far), with fallback exactly when required")
  IN CASE e.o = "art" ->
            Chk(Chk(Chk(w1, res.t = "art" /\ res.code = e.size, "C17", "album art does not have the picture's length"),
                    res.t # "art" \/ e.size = 0 \/ res.idx = e.src + TbFor(r.uri), "C17", "album art bytes are not exactly the picture's bytes"),
                res.t # "art" \/ (IF e.src = 1 /\ pic.hasMime THEN res.kind = "mime" /\ res.msg = pic.mime ELSE res.kind = ""), "C17", "MIME type not propagated exactly when the server gave one")
       [] e.o = "none" -> Chk(w1, res.t = "art_none", "C17", "absence not reported although neither source has data")
       [] OTHER -> Chk(w1, res.t = "ack" /\ res.code = e.code, "C17", "server error not propagated")

WResolve(w, c, n, res) ==
  LET ri == ReqIndex(w, c, n) IN
  IF ri = 0 THEN V(w, "HARNESS", "resolve of unknown request", "") ELSE
  LET r == w.reqs[ri]
      w1 == Chk([w EXCEPT !.reqs[ri].st = "r"], r.st = "p", "C01", "request resolved twice or after cancellation")
      pi == ReplyOf(w, ri)
      got == pi > 0 /\ w.reps[pi].end <= w.rd /\ ~Poisoned(w, w.reps[pi]) /\ (w.lostAt < 0 \/ w.reps[pi].end <= w.lostAt)
      isErr == res.t \in {"closed", "proto"}
      w2 == IF res.t = "proto" THEN [w1 EXCEPT !.surfaced = TRUE] ELSE w1 IN
  IF r.kind = "art" THEN WArtResolve(w2, ri, res)
  ELSE IF r.kind \in {"tlist", "tvec"} /\ ~isErr THEN
     \* C13: the i-th typed response is decoded from the frame the server produced for the i-th command
     LET w3 == Chk(w2, pi > 0 /\ w.reps[pi].end <= w.rd, "C01", "typed list resolved before its reply was completely read") IN
     Chk(Chk(w3, res.t = "tl", "C13", "a typed list whose every reply is well-formed did not resolve to its typed values"),
         res.t # "tl" \/ res.items = [k \in 1..Len(r.cmds) |-> TypedItem(r.cmds[k])], "C13", "the i-th typed response is not decoded from the frame of the i-th command")
  ELSE IF isErr THEN
     LET w3 == Chk(w2, ~got, "C08", "request resolved with an error although its reply had been completely received")
     IN Chk(w3, w.fault # "" \/ w.handles = 0 \/ ~r.wasAlive, "C01", "request resolved with an error on a healthy connection")
  ELSE
     LET w3 == Chk(w2, pi > 0, "C01", "request resolved with data although the server never answered it") IN
     IF pi = 0 THEN w3 ELSE
     LET exp == ResultOf(ReplyLines(w, w.reps[pi])) IN
     Chk(Chk(w3, w.reps[pi].end <= w.rd, "C01", "request resolved before its reply was completely read"),
         SameRes(res, exp), "C01", "request resolved with something else than the server's reply to it")

WCancel(w, c, n) == LET ri == ReqIndex(w, c, n) IN
  IF ri = 0 THEN V(w, "HARNESS", "cancel of unknown request", "") ELSE [w EXCEPT !.reqs[ri].st = "x"]

WDropHandle(w, left) == [w EXCEPT !.handles = left, !.tmo = IF left = 0 THEN FALSE ELSE @]

\* --- events (C04, C08)
\* The monitor keeps every interpretation of the events seen so far that is consistent with what is owed
\* (w.alts: residual owed sequences with the number lx of excusable entries skipped).  An event may match an
\* entry only if every earlier entry is excusable (F-C04-2 precondition, marked when noidle is written).
\* A violation is raised only if NO interpretation is consistent.
Cands(a, name) == {k \in 1..Len(a.ow) : a.ow[k].name = name /\ \A j \in 1..(k - 1) : a.ow[j].exc}
WEvent(w, name) ==
  LET new == UNION {{[ow |-> SubSeq(a.ow, k + 1, Len(a.ow)), lx |-> a.lx + (k - 1)] : k \in Cands(a, name)} : a \in w.alts}
      w0 == Chk(w, ~w.evEnded /\ w.nClosingEv = 0, "C08", "subsystem event after the closing event / end of the event stream") IN
  IF new = {} THEN V(w0, "C04", "event not owed (invented, duplicated or out of order)", "")
  ELSE [w0 EXCEPT !.alts = new]

WClosingEvent(w, kind) ==
  LET w1 == Chk(w, w.nClosingEv = 0, "C08", "more than one closing event") IN
  LET w2 == Chk(w1, ~w.evEnded, "C08", "closing event after the end of the event stream") IN
  LET w3 == Chk(w2, w.fault # "" \/ w.phase = "rejected", "C08", "closing event on a healthy connection") IN
  [w3 EXCEPT !.nClosingEv = @ + 1, !.surfaced = TRUE]

WEventsEnd(w) == Chk([w EXCEPT !.evEnded = TRUE], w.fault # "" \/ w.handles = 0, "C08", "event stream ended on a healthy connection with live handles")

\* --- connect result (C18)
WConnected(w, ok, err, version, nh, greetOk, greetVersion, greetCut) ==
  \* greetOk / greetVersion / greetCut: reference verdict on the greeting bytes (Wire.tla: GreetingRef)
  LET w1 == [w EXCEPT !.connected = IF ok THEN "ok" ELSE err, !.phase = IF ok THEN "up" ELSE @,
                      !.handles = IF ok THEN nh ELSE 0] IN
  IF ok THEN
     LET w2 == Chk(w1, greetOk, "C18", "connect succeeded although the greeting is not valid") IN
     LET w3 == Chk(w2, ~greetOk \/ version = greetVersion, "C18", "protocol version is not the greeting's version string verbatim") IN
     LET w4 == Chk(w3, ~w.hasPw \/ w.phase = "authed", "C18", "connect succeeded before the server accepted the password") IN
     Chk(w4, w.lastK = "idle" \/ w.fault # "", "C05", "connect returned before idle was written")
  ELSE
     LET w2 == Chk(w1, ~(greetOk /\ ~w.hasPw /\ w.fault = ""), "C18", "connect failed although the greeting is valid") IN
     \* greetCut: "" (a complete line was received), "viable" (stream ended inside an otherwise valid greeting), "either"
     \* (error-kind clauses only when the transport itself did not fail during the handshake: after rerr / werr the I/O error is a correct report)
     LET w3 == IF w.fault \in {"rerr", "werr"} THEN w2
               ELSE IF ~greetOk /\ greetCut = "" THEN Chk(w2, err = "invalid", "C18", "malformed greeting not reported as invalid message")
               ELSE IF ~greetOk /\ greetCut = "viable" THEN Chk(w2, err = "io:UnexpectedEof", "C18", "stream ending inside the greeting not reported as unexpected EOF")
               ELSE IF ~greetOk THEN Chk(w2, err \in {"invalid", "io:UnexpectedEof"}, "C18", "bad greeting reported neither as invalid message nor as unexpected EOF")
               ELSE w2 IN
     LET w4 == IF w.phase = "rejected" THEN Chk(w3, err = "incorrect_password", "C18", "rejected password not reported as incorrect password")
               ELSE Chk(w3, err # "incorrect_password", "C18", "incorrect-password error although the server did not reject the password") IN
     LET w5 == IF ~greetOk THEN Chk(w4, w.nlines = 0, "C18", "something was written although the greeting was not valid") ELSE w4 IN
     \* "pending": connect had not returned when the handshake script was over
     Chk(w5, ~(err = "pending" /\ greetOk /\ w.fault = "" /\ w.dl = w.wr /\ ~w.silent), "C18",
         "connect did not return although the greeting is valid, everything the server sent was delivered and nothing failed (was the password line written completely?)")

\* --- timer / quiescence
\* nothing is left for the loop to send: every request reached the server or was abandoned by its caller
AllSeen(w) == \A i \in 1..Len(w.reqs) : w.reqs[i].seen \/ w.reqs[i].st = "x"
\* (while the transport exerts write backpressure the idle line cannot get out: no obligation arises from this timer expiry)
WTimeout(w) == [w EXCEPT !.tmo = (w.phase = "up" /\ w.mode = "ready" /\ w.rd = w.wr /\ AllSeen(w) /\ w.fault = "" /\ w.handles > 0 /\ w.nlines > 0 /\ ~w.wst)]
WStall(w, on) == [w EXCEPT !.wst = on, !.tmo = FALSE]

IsDue(w, e) == /\ e.replyEnd <= w.rd
               /\ (w.poison < 0 \/ e.replyEnd <= w.poison)
               /\ (w.lostAt < 0 \/ e.replyEnd <= w.lostAt)
MinLx(alts) == CHOOSE x \in {a.lx : a \in alts} : \A y \in {a.lx : a \in alts} : x <= y
\* the user dropped the event receiver (allowed): nothing is owed to it any more, nothing about the event stream is observable
WEventsDropped(w) == [w EXCEPT !.evDropped = TRUE]
NoOwed(w) == [w EXCEPT !.alts = {[ow |-> <<>>, lx |-> a.lx] : a \in @}]
\* evLazy: the application keeps the receiver but polls it only at the end of the run - nothing is due before that
WQuiescent(w0) ==
  IF w0.evLazy THEN
     [Chk(w0, ~(w0.tmo /\ AllSeen(w0) /\ w0.rd = w0.wr /\ w0.fault = "" /\ w0.handles > 0) \/ w0.mode = "idle", "C05", "no idle after the re-idle delay expired") EXCEPT !.tmo = FALSE]
  ELSE
  LET w == IF w0.evDropped THEN NoOwed(w0) ELSE w0
      Bad(a) == \E k \in 1..Len(a.ow) : IsDue(w, a.ow[k]) /\ ~a.ow[k].exc
      good == {a \in w.alts : ~Bad(a)}
      Purge(a) == [ow |-> SelectSeq(a.ow, LAMBDA e : ~IsDue(w, e)),
                   lx |-> a.lx + Cardinality({k \in 1..Len(a.ow) : IsDue(w, a.ow[k]) /\ a.ow[k].exc})]
      any == CHOOSE a \in w.alts : \A b \in w.alts : a.lx <= b.lx
      lostIdx == {any.ow[k].idx : k \in {j \in 1..Len(any.ow) : IsDue(w, any.ow[j]) /\ ~any.ow[j].exc}}
      w1 == IF good # {} THEN [w EXCEPT !.alts = {Purge(a) : a \in good}]
            ELSE V([w EXCEPT !.alts = {Purge(a) : a \in @}], "C04", "notification lost: idle reply completely read, event never delivered",
                   IF \A x \in lostIdx : x > 1 THEN "not-first-changed-line" ELSE "")
      m == MinLx(w1.alts)
      w2 == IF m > w.lxRep THEN V([w1 EXCEPT !.lxRep = m], "C04", "notification lost: partial idle reply dropped when a request arrived", "F-C04-2") ELSE w1
      w4 == Chk(w2, ~(w.tmo /\ AllSeen(w) /\ w.rd = w.wr /\ w.fault = "" /\ w.handles > 0) \/ w.mode = "idle", "C05", "no idle after the re-idle delay expired")
  IN [w4 EXCEPT !.tmo = FALSE]

\* --- end of run: fin = [closed, closedKnown, evEnded, ioDropped, unresolved (set of <<c,n>>), alive]
Unclean(w) == w.obs \cap {"eof_dirty", "read_err", "write_err", "garbage"} # {}
Ended(w) == w.obs # {} \/ w.handles = 0
WFinal(w, fin) ==
  LET w1 == IF fin.unresolved # {} THEN
               V(w, IF w.fault = "" /\ w.handles > 0 THEN "C01" ELSE "C08", "request never resolved after the session was drained", "") ELSE w
      w2 == IF w.obs \cap {"eof_dirty", "eof_dirty_after_drop", "eof_clean", "read_err", "write_err", "garbage"} # {} /\ w.phase = "up"
            THEN LET a == Chk(w1, ~fin.closedKnown \/ fin.closed, "C08", "connection ended but the client does not report itself closed")
                     b == Chk(a, fin.evEnded \/ w.evDropped, "C08", "connection ended but the event stream did not end")
                     c == Chk(b, fin.ioDropped, "C08", "connection ended but the transport was not released")
                 IN c
            ELSE w1
      \* the failure goes to the caller whose request was in flight; if that caller had cancelled, nobody is left to tell
      someCancelled == \E k \in 1..Len(w.reqs) : w.reqs[k].st = "x"
      w3 == IF Unclean(w) /\ w.phase = "up" /\ fin.evEnded
            THEN Chk(w2, w.surfaced \/ someCancelled, "C08", "unclean connection end was reported neither to a caller nor as a closing event") ELSE w2
      w4 == IF w.handles = 0 /\ w.phase = "up" /\ fin.unresolved = {} THEN
               Chk(Chk(w3, fin.ioDropped, "C08", "last handle dropped but the transport was not released"),
                   fin.evEnded \/ w.evDropped, "C08", "last handle dropped but the event stream did not end")
            ELSE w3
      w5 == IF w.fault = "" /\ w.handles > 0 /\ w.phase = "up" THEN
               Chk(Chk(w4, ~fin.closedKnown \/ ~fin.closed, "C08", "client reports closed on a healthy connection"), ~fin.evEnded, "C08", "event stream ended on a healthy connection")
            ELSE w4
      w6 == IF "eof_dirty_after_drop" \in w.obs /\ ~Unclean(w) /\ w.phase = "up" /\ fin.evEnded /\ ~w.surfaced /\ ~someCancelled
            THEN V(w5, "C08", "end of stream inside an idle reply taken for a clean close: its first lines were dropped with the cancelled receive", "F-C04-2")
            ELSE w5
      \* a healthy connection (no fault, valid server output, live handles, drained): a notification whose reply reached the
      \* transport but that the client never read is lost just the same - the client gave up reading on its own
      stuck == \A a \in w.alts : \E k \in 1..Len(a.ow) : ~a.ow[k].exc /\ a.ow[k].replyEnd <= w.dl /\ a.ow[k].replyEnd > w.rd
      w7 == IF w.fault = "" /\ w.obs = {} /\ w.poison < 0 /\ ~w.desync /\ ~w.wst /\ ~w.evDropped /\ w.handles > 0 /\ w.phase = "up" /\ w.rd < w.dl /\ stuck
            THEN V(w6, "C04", "notification lost: its idle reply reached the transport of a healthy connection but the client stopped reading", "")
            ELSE w6
  IN w7

\* after the final observation one more request is issued (probe): it must resolve too
\* ... and finally every handle is dropped: the loop must end, the event stream must end, the transport must be released
WEnd(w, unresolved, evEnded, ioDropped) ==
  LET w1 == IF unresolved = {} THEN w ELSE V(w, "C08", "request issued after the end of the connection (or after the drain) never resolved", "") IN
  IF w.phase = "up" /\ w.handles = 0 /\ unresolved = {}
  THEN Chk(Chk(w1, ioDropped, "C08", "all handles dropped but the transport was not released"),
           evEnded \/ w.evDropped, "C08", "all handles dropped but the event stream did not end")
  ELSE w1
=============================================================================
