------------------------------- MODULE IdleAbs -------------------------------
\* Sequence-free abstraction of the idle / noidle discipline (C05) for an UNBOUNDED argument: the client loop as coded
\* (program counter of Loop.tla collapsed to five values) against MPD's idle rules, with the pipe reduced to a counter of
\* replies the server has written and the client has not consumed yet.  No bound on requests, changes or time.
\* Checked (a) by TLC as an ordinary invariant (IdleAbs.cfg) and (b) by Apalache as an INDUCTIVE invariant
\*   apalache-mc check --init=Init    --inv=IndInv --length=0 IdleAbs.tla      (Init => IndInv)
\*   apalache-mc check --init=IndInit --inv=IndInv --length=1 IdleAbs.tla      (IndInv /\ Next => IndInv')
\* which makes Safe (= IndInv's first conjuncts) hold in every reachable state for any number of requests and changes.
\* The abstraction is bound to the rest only by construction: its actions are the blocking segments of Loop.tla with the
\* same names; Loop.tla itself is bound to the code by LoopTrace.tla.
EXTENDS Integers

VARIABLES
  \* @type: Str;
  pc,        \* "start" | "idle" | "noidleSent" | "reqSent" | "wait"
  \* @type: Str;
  srv,       \* "ready" | "idle"  (the server waits in idle)
  \* @type: Int;
  inflight,  \* replies written by the server, not yet consumed by the client
  \* @type: Bool;
  pend,      \* the server has changes it has not reported yet
  \* @type: Bool;
  bad        \* a command other than noidle was written while the server waited in idle, or a request was written while a reply was outstanding

vars == <<pc, srv, inflight, pend, bad>>

Init == pc = "start" /\ srv = "ready" /\ inflight = 0 /\ pend = FALSE /\ bad = FALSE

\* the server receives `idle`: replies at once if changes are pending, else waits
SrvIdle == IF pend THEN srv' = "ready" /\ inflight' = inflight + 1 /\ pend' = FALSE
           ELSE srv' = "idle" /\ inflight' = inflight /\ pend' = FALSE
\* environment: something changes on the server
SrvChange == /\ IF srv = "idle" THEN srv' = "ready" /\ inflight' = inflight + 1 /\ pend' = FALSE
                ELSE srv' = srv /\ inflight' = inflight /\ pend' = TRUE
             /\ UNCHANGED <<pc, bad>>
\* run_loop start / re-idle after the 100 ms delay
SendIdle == /\ pc \in {"start", "wait"}
            /\ pc' = "idle" /\ bad' = (bad \/ srv = "idle" \/ inflight # 0) /\ SrvIdle
\* Idle.Select, reply branch: the idle reply is consumed and idle is written again (one blocking segment)
RecvIdleReply == /\ pc = "idle" /\ inflight > 0
                 /\ pc' = "idle" /\ bad' = (bad \/ srv = "idle" \/ inflight # 1)
                 /\ IF pend THEN srv' = "ready" /\ inflight' = inflight /\ pend' = FALSE      \* consumed one, got one
                    ELSE srv' = "idle" /\ inflight' = inflight - 1 /\ pend' = FALSE
\* Idle.Select, command branch: noidle is written (the server ignores it unless it waits in idle)
SelectCommand == /\ pc = "idle"
                 /\ pc' = "noidleSent" /\ UNCHANGED <<pend, bad>>
                 /\ IF srv = "idle" THEN srv' = "ready" /\ inflight' = inflight + 1 ELSE UNCHANGED <<srv, inflight>>
\* Cmd.RecvNoidleReply + Cmd.SendRequest: the reply to idle / noidle is consumed, the request is written and answered
RecvNoidleReply == /\ pc = "noidleSent" /\ inflight > 0
                   /\ pc' = "reqSent" /\ bad' = (bad \/ srv = "idle" \/ inflight # 1)
                   /\ inflight' = inflight /\ UNCHANGED <<srv, pend>>                         \* consumed one, the request's reply is written
\* Wait.RecvReply + Wait.Forward
RecvReply == /\ pc = "reqSent" /\ inflight > 0
             /\ pc' = "wait" /\ inflight' = inflight - 1 /\ UNCHANGED <<srv, pend, bad>>
\* Wait.Next, a request is already queued: written directly
NextImmediate == /\ pc = "wait"
                 /\ pc' = "reqSent" /\ bad' = (bad \/ srv = "idle" \/ inflight # 0)
                 /\ inflight' = inflight + 1 /\ UNCHANGED <<srv, pend>>
Next == SrvChange \/ SendIdle \/ RecvIdleReply \/ SelectCommand \/ RecvNoidleReply \/ RecvReply \/ NextImmediate
Spec == Init /\ [][Next]_vars

TypeOK == pc \in {"start", "idle", "noidleSent", "reqSent", "wait"} /\ srv \in {"ready", "idle"} /\ inflight \in Int /\ pend \in BOOLEAN /\ bad \in BOOLEAN
Safe == ~bad
\* the inductive strengthening: what is in flight at each program counter
IndInv == /\ TypeOK /\ Safe
          /\ (pc \in {"start", "wait"} => srv = "ready" /\ inflight = 0)
          /\ (pc = "idle" => (srv = "idle" /\ inflight = 0 /\ ~pend) \/ (srv = "ready" /\ inflight = 1))
          /\ (pc \in {"noidleSent", "reqSent"} => srv = "ready" /\ inflight = 1)
\* arbitrary state satisfying the invariant (Apalache: --init=IndInit)
IndInit == /\ pc \in {"start", "idle", "noidleSent", "reqSent", "wait"} /\ srv \in {"ready", "idle"} /\ inflight \in -2..3 /\ pend \in BOOLEAN /\ bad \in BOOLEAN
           /\ IndInv
=============================================================================
