------------------------------ MODULE EncoderMC ------------------------------
\* Exhaustive design check of Encoder.tla: every builder history (names, string arguments, user-defined renderers that
\* emit arbitrary bytes, rejected-then-accepted sequences) and every filter construction history within the bounds, each
\* state judged by what the PEER's tokenizer / filter grammar reads.  Class alphabet (one representative per class the two
\* sides distinguish): a, Z, _, 0, blank, TAB, 0x01, LF, NUL, ", ', \, ( , ), 200 (any byte of a multi-byte character).
EXTENDS Encoder

CONSTANTS MaxTotal,      \* bound on the summed length of all arguments of one command
          MaxAdds,       \* bound on add_argument calls per command
          MaxFVal,       \* bound on the length of a filter value
          MaxFNodes      \* bound on the number of nodes of a filter expression

VARIABLES b,      \* builder state (Encoder!Start ...)
          tried,  \* the name last passed to Command::build
          used,   \* summed length of arguments passed so far (accepted or not)
          adds,   \* add_argument calls so far
          raw,    \* a user-defined renderer was used (b.args no longer determines the expected tokens)
          f       \* filter under construction, [k |-> "none"] before the first constructor
vars == <<b, tried, used, adds, raw, f>>

ArgSigma == {97, 32, 9, 1, 10, 0, 34, 39, 92, 200}
NameSigma == {97, 90, 95, 48, 32, 10, 34, 200, 1}
FSigma == {97, 32, 9, 34, 39, 92, 40, 41, 200}      \* (9: control characters are ordinary value bytes inside the quoted expression)
RECURSIVE StrsOver(_, _)
StrsOver(S, n) == IF n = 0 THEN {<<>>} ELSE LET R == StrsOver(S, n - 1) IN R \cup {Append(s, c) : s \in {t \in R : Len(t) = n - 1}, c \in S}
ArgStrs == StrsOver(ArgSigma, MaxTotal)
NameStrs == StrsOver(NameSigma, 3) \cup
  { <<99,109,100>>, <<99,111,109,109,97,110,100,95,108,105,115,116,95,98,101,103,105,110>>, CLOKBEGIN, CLEND, COMMANDLIST,
    CLEND \o <<120>>, <<120>> \o CLEND, <<67>> \o Tail(CLEND), <<105,100,108,101>>, <<110,111,105,100,108,101>>, <<112,108,97,121,49>>, <<49,112,108,97,121>> }
FVals == StrsOver(FSigma, MaxFVal) \cup { <<65,78,68>>, <<32,65,78,68,32>>, <<97,41,32,65,78,68,32,40,98>>, <<33,40>>, <<10>>, <<97,0>> }
ARTIST == <<65,114,116,105,115,116>>
ALBUM == <<65,108,98,117,109>>
MBID == <<77,85,83,73,67,66,82,65,73,78,90,95,65,76,66,85,77,73,68>>
OpBytes == { <<61,61>>, <<33,61>>, <<99,111,110,116,97,105,110,115>>, <<61,126>>, <<33,126>> }
NoF == [k |-> "none"]
RECURSIVE Nodes(_)
RECURSIVE SumNodes(_)
SumNodes(es) == IF es = <<>> THEN 0 ELSE Nodes(Head(es)) + SumNodes(Tail(es))
Nodes(e) == IF e.k = "tag" THEN 1 ELSE IF e.k = "not" THEN 1 + Nodes(e.e) ELSE 1 + SumNodes(e.es)
Leaf(t, o, v) == [k |-> "tag", tag |-> t, opb |-> o, v |-> v]

Init == b = Start /\ tried = <<>> /\ used = 0 /\ adds = 0 /\ raw = FALSE /\ f = NoF

Build == /\ ~b.built /\ f = NoF /\ tried = <<>>
         /\ \E n \in NameStrs : b' = PBuild(n) /\ tried' = n
         /\ UNCHANGED <<used, adds, raw, f>>
AddStr == /\ b.built /\ adds < MaxAdds /\ b.name = <<99,109,100>>
          /\ \E v \in ArgStrs : Len(v) + used <= MaxTotal /\ b' = PAddStr(b, v) /\ used' = used + Len(v)
          /\ adds' = adds + 1 /\ UNCHANGED <<tried, raw, f>>
\* a user-defined Argument impl may emit any bytes
AddRaw == /\ b.built /\ adds < MaxAdds /\ b.name = <<99,109,100>>
          /\ \E r \in ArgStrs : Len(r) <= 2 /\ Len(r) + used <= MaxTotal /\ b' = PAddRendered(b, r, r) /\ used' = used + Len(r)
          /\ adds' = adds + 1 /\ raw' = TRUE /\ UNCHANGED <<tried, f>>
FLeaf == /\ f = NoF /\ ~b.built /\ tried = <<>>
         /\ \E v \in FVals, o \in OpBytes, t \in {ARTIST, MBID} : (Len(v) <= 1 \/ (o = <<61,61>> /\ t = ARTIST)) /\ f' = Leaf(t, o, v)
         /\ UNCHANGED <<b, tried, used, adds, raw>>
FNegate == /\ f # NoF /\ Nodes(f) < MaxFNodes /\ f' = FNot(f) /\ UNCHANGED <<b, tried, used, adds, raw>>
FAndRight == /\ f # NoF /\ Nodes(f) + 2 <= MaxFNodes
             /\ \E v \in {s \in FVals : Len(s) <= 1} : f' = FAnd(f, Leaf(ALBUM, <<33,61>>, v))
             /\ UNCHANGED <<b, tried, used, adds, raw>>
FAndLeft == /\ f # NoF /\ Nodes(f) + 2 <= MaxFNodes
            /\ f' = FAnd(Leaf(ALBUM, <<61,126>>, <<97>>), f)
            /\ UNCHANGED <<b, tried, used, adds, raw>>
FAndNotSelf == /\ f # NoF /\ 2 * Nodes(f) + 2 <= MaxFNodes
               /\ f' = FAnd(f, FNot(f))
               /\ UNCHANGED <<b, tried, used, adds, raw>>
Next == Build \/ AddStr \/ AddRaw \/ FLeaf \/ FNegate \/ FAndRight \/ FAndLeft \/ FAndNotSelf
Spec == Init /\ [][Next]_vars

\* ---- invariants (as coded: the known causes are the ONLY failures, and they are exactly the failures)
Inv_C06 == raw \/ RoundTripOK(b)
Inv_C06_exact == raw \/ SignatureExact(b)
Inv_C07 == OneLine(b) /\ Rollback(b) /\ NameContract(tried)
Inv_C07_rejects == \* the statement's rejection clauses: LF in a string argument is rejected, names outside the alphabet are rejected
   (b.built /\ ~raw) => \A k \in 1..Len(b.args) : ~HasByte(b.args[k], 10)
Inv_C11 == f = NoF \/ FilterOK(f)
Inv_C11_exact == (f.k = "tag" /\ FilterAccepted(f)) => (~FilterReadBack(f) <=> (~FilterEscapesBoth /\ KnownC11(f)))
\* list framing: whatever was built so far, one- and three-element lists of it are framed as the server expects
Inv_C13 == b.built =>
   /\ RenderList(<<b.buf>>) = Line(b)
   /\ LET w == RenderList(<<b.buf, b.buf, b.buf>>) IN
        w = CLOKBEGIN \o <<10>> \o Line(b) \o Line(b) \o Line(b) \o CLEND \o <<10>>
        /\ Cardinality({k \in 1..Len(w) : w[k] = 10}) = 5
\* strict versions (must hold for the ideal encoder, must FAIL as coded: vacuity guard for the invariants above)
Inv_C06_strict == raw \/ ~b.built \/ ReadBack(b)
Inv_C11_strict == f = NoF \/ FilterStrict(f)
=============================================================================
