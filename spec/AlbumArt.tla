------------------------------ MODULE AlbumArt ------------------------------
\* Client::album_art as coded (mpd_client/src/client/mod.rs): readpicture first, fall back to albumart when the
\* reply carries no picture or the command is unknown (ACK 5), then fetch chunks at offset = bytes received so
\* far until the announced size is reached.  Composed with the server's picture rules of World.tla (ExecPic) and
\* checked against ArtExpect (the property-level expectation) for EVERY picture size, chunk limit, source
\* combination, MIME presence and scripted error within the bounds (C17).
EXTENDS World
CONSTANTS MaxP, MaxK, Acks,
          Mut   \* "" = as coded; seeded model mutants (vacuity guards): "limit_offset" (offset advanced by the chunk limit instead of
                \* the bytes received), "empty_is_none" (a zero-byte picture counts as no picture), "no_fallback" (ACK 5 is not a fallback)

VARIABLES pic, pc, got, expected, embedded, hasMime, reqs, result
vars == <<pic, pc, got, expected, embedded, hasMime, reqs, result>>

Pics == [embedded : -1..MaxP, file : -1..MaxP, hasMime : BOOLEAN, mime : {<<105>>}, limit : 1..MaxK, embedded_ack : Acks, file_ack : Acks, vary : BOOLEAN, ackp : {FALSE}, tfirst : {FALSE}]
Init == /\ pic \in Pics /\ pc = "embedded0" /\ got = 0 /\ expected = 0 /\ embedded = FALSE /\ hasMime = FALSE /\ reqs = <<>> /\ result = [o |-> "", code |-> 0]

\* the typed reply of one picture command: [k: "some" | "none" | "err", size, n, mime?, code]
Reply(emb, off) ==
  LET x == ExecPic(pic, 0, emb, off, 0, NoDigest) IN
  IF ~x.ok THEN [k |-> "err", size |-> 0, n |-> 0, mime |-> FALSE, code |-> x.ls[1].a]
  ELSE IF x.ls = <<>> THEN [k |-> "none", size |-> 0, n |-> 0, mime |-> FALSE, code |-> 0]
  ELSE [k |-> "some", size |-> ValOfDec(x.ls[1].v), n |-> x.ls[Len(x.ls)].a, mime |-> Len(x.ls) = 3, code |-> 0]

Done(o, code) == pc' = "done" /\ result' = [o |-> o, code |-> code]
Embedded0 ==
  /\ pc = "embedded0" /\ reqs' = Append(reqs, <<TRUE, 0>>)
  /\ LET r == Reply(TRUE, 0) IN
     CASE r.k = "some" /\ ~(Mut = "empty_is_none" /\ r.size = 0) -> /\ got' = r.n /\ expected' = r.size /\ embedded' = TRUE /\ hasMime' = r.mime /\ pc' = "loop" /\ UNCHANGED result
       [] r.k = "none" \/ (r.k = "err" /\ r.code = 5 /\ Mut # "no_fallback") \/ (r.k = "some" /\ Mut = "empty_is_none" /\ r.size = 0) -> /\ pc' = "file0" /\ UNCHANGED <<got, expected, embedded, hasMime, result>>
       [] OTHER -> /\ Done("ack", r.code) /\ UNCHANGED <<got, expected, embedded, hasMime>>
  /\ UNCHANGED pic
File0 ==
  /\ pc = "file0" /\ reqs' = Append(reqs, <<FALSE, 0>>)
  /\ LET r == Reply(FALSE, 0) IN
     CASE r.k = "some" -> /\ got' = r.n /\ expected' = r.size /\ pc' = "loop" /\ UNCHANGED <<embedded, hasMime, result>>
       [] r.k = "none" -> /\ Done("none", 0) /\ UNCHANGED <<got, expected, embedded, hasMime>>
       [] OTHER -> /\ Done("ack", r.code) /\ UNCHANGED <<got, expected, embedded, hasMime>>
  /\ UNCHANGED pic
Loop ==
  /\ pc = "loop"
  /\ IF got >= expected THEN /\ Done("art", 0) /\ UNCHANGED <<got, expected, embedded, hasMime, reqs>>
     ELSE /\ reqs' = Append(reqs, <<embedded, got>>)
          /\ LET r == Reply(embedded, got) IN
             CASE r.k = "some" -> /\ got' = got + (IF Mut = "limit_offset" THEN pic.limit ELSE r.n) /\ UNCHANGED <<pc, expected, embedded, hasMime, result>>
               [] r.k = "none" -> /\ Done("none", 0) /\ UNCHANGED <<got, expected, embedded, hasMime>>
               [] OTHER -> /\ Done("ack", r.code) /\ UNCHANGED <<got, expected, embedded, hasMime>>
  /\ UNCHANGED pic
Next == Embedded0 \/ File0 \/ Loop
Spec == Init /\ [][Next]_vars /\ WF_vars(Next)

Inv_C17 == pc = "done" =>
  LET e == ArtExpect(pic) IN
  /\ reqs = e.reqs
  /\ result.o = e.o /\ (e.o = "ack" => result.code = e.code)
  /\ (e.o = "art" => got = e.size /\ embedded = (e.src = 1) /\ hasMime = (e.src = 1 /\ pic.hasMime))
\* finitely many requests at strictly increasing offsets
Inv_Offsets == \A a, b \in 1..Len(reqs) : (a < b /\ reqs[a][1] = reqs[b][1]) => reqs[a][2] < reqs[b][2]
Inv_Bounded == Len(reqs) <= MaxP + 2
Terminates == <>(pc = "done")
=============================================================================
