-------------------------------- MODULE Loop --------------------------------
\* The client as coded: mpd_client/src/client/connection.rs (run_loop, run_loop_iteration,
\* handle_command, handle_idle_response), the request channel and responders of client/mod.rs, and
\* AsyncConnection::receive of mpd_protocol/src/connection.rs, composed with the world of World.tla
\* (MPD server, pipe, callers, timer, faults).  Sizes are abstract half-line units (Unit = TRUE).
\*
\* Grain: one loop action = the run of the loop task from one blocking point to the next (writes
\* never block; the loop cannot observe the environment in between).  Blocking points:
\*   Idle (select! over receive / commands.recv), NoidleWait, ReplyWait (a receive each),
\*   NextWait (timeout(100 ms, commands.recv)).
\* One poll of a receive future = Poll(..): parse what is buffered, else read what is readable and
\* parse again, else stay pending / see EOF / see the I/O error.
\*
\* Named deviations of the code from the ideal (constants):
\*   CancelSafe = FALSE  - DropPartialReply: select! drops the receive future together with the
\*                         lines its ResponseBuilder had already consumed (known finding F-C04-2)
\*   AllChanged = TRUE   - one event per `changed:` line (FALSE = the code before fix F-C04-1)
\*   (always)            - ContinueAfterReplyError: after a failed receive in ReplyWait the loop goes on
EXTENDS World

CONSTANTS Callers,      \* set of caller ids (small naturals)
          MaxSeq,       \* requests per caller
          Shapes,       \* set of request shapes: sequences of [fail, pad] (Len 1 = single command)
          MaxChanges, SubSets,   \* server-side change steps and the subsystem sequences they may carry
          Faults,       \* subset of {"eof", "rerr", "werr", "garbage"}: at most one fault per behaviour
          AllowCancel, AllowDrop,
          CancelSafe, AllChanged,
          Mutant        \* "" or the name of a seeded model mutant (self-test of the monitors)

VARIABLES w, pc, queue, cur, consumed, bstart, nchg, sched
vars == <<w, pc, queue, cur, consumed, bstart, nchg, sched>>
view == <<w, pc, queue, cur, consumed, bstart, nchg>>

NoPic == [embedded |-> -1, file |-> -1, hasMime |-> FALSE, mime |-> <<>>, limit |-> 1, embedded_ack |-> 0, file_ack |-> 0, vary |-> FALSE, ackp |-> FALSE, tfirst |-> FALSE]

Init == /\ w = [InitW(FALSE, <<>>, <<>>, FALSE, "ok", NoPic) EXCEPT !.phase = "up", !.handles = Cardinality(Callers)]
        /\ pc = "Start" /\ queue = <<>> /\ cur = 0 /\ consumed = 0 /\ bstart = 0 /\ nchg = 0 /\ sched = <<>>

\* ---------------------------------------------------------------- helpers
IDLEL   == CL("idle", <<>>, FALSE, 0)
NOIDLEL == CL("noidle", <<>>, FALSE, 0)
BEGINL  == CL("begin", <<>>, FALSE, 0)
ENDL    == CL("end", <<>>, FALSE, 0)

Werr == w.fault = "werr"
Rerr == w.fault = "rerr"
Eof  == w.fault = "eof"

RECURSIVE WriteLines(_, _)
WriteLines(ww, ls) == IF ls = <<>> THEN ww ELSE WriteLines(WCliLine(ww, Head(ls)), Tail(ls))
ReqLines(r) == LET cl(c) == CL("req", c.id, c.fail, c.pad) IN
               IF Len(r.cmds) = 1 THEN <<cl(r.cmds[1])>>
               ELSE <<BEGINL>> \o [k \in 1..Len(r.cmds) |-> cl(r.cmds[k])] \o <<ENDL>>

\* responder.send(..): reaches the caller only if it is still waiting
Respond(ww, ri, res) == IF ri > 0 /\ ww.reqs[ri].st = "p" THEN WResolve(ww, ww.reqs[ri].c, ww.reqs[ri].n, res) ELSE ww
Closed == Res("closed", <<>>, 0, 0, <<>>, <<>>)
Proto  == Res("proto", <<>>, 0, 0, <<>>, <<>>)

RECURSIVE RespondAll(_, _, _)
RespondAll(ww, ris, res) == IF ris = <<>> THEN ww ELSE RespondAll(Respond(ww, Head(ris), res), Tail(ris), res)

\* the loop ends: queue and in-flight responder are dropped, event sender and transport are dropped
ExitW(ww, inflight) == WEventsEnd(RespondAll(Respond(ww, inflight, Closed), queue, Closed))

\* ---------------------------------------------------------------- one poll of a receive future
LineStart(ww, j) == IF j = 1 THEN 0 ELSE ww.out[j - 1].end
FirstLineFrom(ww, off) == LET S == {j \in 1..Len(ww.out) : LineStart(ww, j) >= off} IN
                          IF S = {} THEN Len(ww.out) + 1 ELSE CHOOSE j \in S : \A k \in S : j <= k
RECURSIVE Scan(_, _, _)
Scan(ww, j, rd) ==
  IF j > Len(ww.out) THEN [st |-> "pend", j |-> j]
  ELSE IF ww.out[j].l.t \in {"bad", "greet"} /\ LineStart(ww, j) < rd THEN [st |-> "invalid", j |-> j]
  ELSE IF ww.out[j].end > rd THEN [st |-> "pend", j |-> j]
  ELSE IF ww.out[j].l.t \in {"ok", "ack"} THEN [st |-> "resp", j |-> j]
  ELSE Scan(ww, j + 1, rd)

PR(st, ww, cons, bs, lines) == [st |-> st, w |-> ww, consumed |-> cons, bstart |-> bs, lines |-> lines]
RespLines(ww, bs, j) == LET j0 == FirstLineFrom(ww, bs) IN [k \in 1..(j - j0 + 1) |-> ww.out[j0 + k - 1].l]

Finish(ww, s, cons, bs) ==   \* s: scan result that is not "pend"
  IF s.st = "resp" THEN PR("resp", ww, ww.out[s.j].end, ww.out[s.j].end, RespLines(ww, bs, s.j))
  ELSE PR("invalid", ww, LineStart(ww, s.j), bs, <<>>)

Avail(ww) == IF ww.lostAt >= 0 /\ ww.lostAt < ww.dl THEN 0 ELSE ww.dl - ww.rd

Poll(ww, cons, bs) ==
  LET s1 == Scan(ww, FirstLineFrom(ww, cons), ww.rd) IN
  IF s1.st # "pend" THEN Finish(ww, s1, cons, bs)
  ELSE LET c1 == LineStart(ww, s1.j) IN
       IF ww.fault = "rerr" THEN PR("ioerr", WReadErr(ww), c1, bs, <<>>)
       ELSE IF ww.dl > ww.rd THEN
            LET w2 == WRead(ww, ww.dl - ww.rd)
                s2 == Scan(w2, s1.j, w2.rd) IN
            IF s2.st # "pend" THEN Finish(w2, s2, c1, bs)
            ELSE LET c2 == LineStart(w2, s2.j) IN
                 IF w2.fault = "eof" THEN
                    (IF bs < c2 \/ c2 < w2.rd THEN PR("eoferr", WReadEof(w2), c2, bs, <<>>) ELSE PR("eofclean", WReadEof(w2), c2, bs, <<>>))
                 ELSE PR("pend", w2, c2, bs, <<>>)
       ELSE IF ww.fault = "eof" THEN
            (IF bs < c1 \/ c1 < ww.rd THEN PR("eoferr", WReadEof(ww), c1, bs, <<>>) ELSE PR("eofclean", WReadEof(ww), c1, bs, <<>>))
       ELSE PR("pend", ww, c1, bs, <<>>)

Progress(p) == p.w.rd # w.rd \/ p.consumed # consumed \/ p.st # "pend"

ChgNames(lines) == LET S == {k \in 1..Len(lines) : lines[k].t = "f" /\ lines[k].k = CHANGED} IN
                   [j \in 1..Cardinality(S) |-> lines[CHOOSE k \in S : Cardinality({y \in S : y < k}) = j - 1].v]
EventsOf(lines) == LET cs == ChgNames(lines) IN IF AllChanged \/ cs = <<>> THEN cs ELSE <<Head(cs)>>
RECURSIVE SendEvents(_, _)
SendEvents(ww, names) == IF names = <<>> THEN ww ELSE SendEvents(WEvent(ww, Head(names)), Tail(names))
IsAck(lines) == lines # <<>> /\ lines[Len(lines)].t = "ack"

ChanClosed == w.handles = 0 /\ \A k \in 1..Len(w.reqs) : w.reqs[k].st # "p"

\* ---------------------------------------------------------------- loop actions
Settle == [op |-> "settle", c |-> 0, a |-> 0, s |-> <<>>]
GotoM(timer, ww, npc, q, c, cons, bs) ==
  /\ w' = ww /\ pc' = npc /\ queue' = q /\ cur' = c /\ consumed' = cons /\ bstart' = bs
  /\ UNCHANGED <<nchg>>
  /\ sched' = IF timer THEN sched \o <<[op |-> "timeout", c |-> 0, a |-> 0, s |-> <<>>], Settle>>
              ELSE IF sched # <<>> /\ sched[Len(sched)].op = "settle" THEN sched ELSE Append(sched, Settle)
Goto(ww, npc, q, c, cons, bs) == GotoM(FALSE, ww, npc, q, c, cons, bs)

\* write `idle`; on a write failure the closing event is sent and the loop ends
IdleOrDieM(timer, ww, cons, bs) ==
  IF ww.fault = "werr" THEN GotoM(timer, ExitW(WClosingEvent(WWriteErr(ww), "io"), 0), "Exit", <<>>, 0, cons, bs)
  ELSE GotoM(timer, WCliLine(ww, IDLEL), "Idle", queue, 0, cons, bs)
IdleOrDie(ww, cons, bs) == IdleOrDieM(FALSE, ww, cons, bs)

LStart == pc = "Start" /\ IdleOrDie(w, consumed, bstart)

\* a Ready result of the receive future while idling
IdleReady(p) ==
  CASE p.st = "resp" ->
         IF IsAck(p.lines) THEN Goto(ExitW(WClosingEvent(p.w, "invalid_response"), 0), "Exit", <<>>, 0, p.consumed, p.bstart)
         ELSE IdleOrDie(SendEvents(p.w, EventsOf(p.lines)), p.consumed, p.bstart)
    [] p.st = "eofclean" -> Goto(ExitW(p.w, 0), "Exit", <<>>, 0, p.consumed, p.bstart)
    [] OTHER -> Goto(ExitW(WClosingEvent(p.w, p.st), 0), "Exit", <<>>, 0, p.consumed, p.bstart)

LSelReply == /\ pc = "Idle"
             /\ LET p == Poll(w, consumed, bstart) IN p.st # "pend" /\ IdleReady(p)

LSelPend == /\ pc = "Idle" /\ queue = <<>> /\ ~ChanClosed
            /\ LET p == Poll(w, consumed, bstart) IN
               p.st = "pend" /\ Progress(p) /\ Goto(p.w, "Idle", queue, 0, p.consumed, p.bstart)

\* the command branch of select! wins; recvFirst: the receive future was polled (and was pending) first
LSelCmd(recvFirst) ==
  /\ pc = "Idle" /\ queue # <<>>
  /\ LET p == IF recvFirst THEN Poll(w, consumed, bstart) ELSE PR("pend", w, consumed, bstart, <<>>) IN
     /\ p.st = "pend"
     /\ LET ri == Head(queue)
            bs == IF CancelSafe THEN p.bstart ELSE p.consumed      \* DropPartialReply
        IN IF p.w.fault = "werr"
           THEN Goto(ExitW(Respond(WWriteErr(p.w), ri, Proto), 0) , "Exit", <<>>, 0, p.consumed, bs)
           ELSE Goto(WCliLine(p.w, NOIDLEL), "NoidleWait", Tail(queue), ri, p.consumed, bs)

LSelClosed(recvFirst) ==
  /\ pc = "Idle" /\ queue = <<>> /\ ChanClosed
  /\ LET p == IF recvFirst THEN Poll(w, consumed, bstart) ELSE PR("pend", w, consumed, bstart, <<>>) IN
     /\ p.st = "pend"
     /\ Goto(ExitW(p.w, 0), "Exit", <<>>, 0, p.consumed, p.consumed)

SendRequest(ww, ri, cons, bs, q) ==
  IF ww.fault = "werr" THEN Goto(ExitW(Respond(WWriteErr(ww), ri, Proto), 0), "Exit", <<>>, 0, cons, bs)
  ELSE Goto(WriteLines(ww, ReqLines(ww.reqs[ri])), "ReplyWait", q, ri, cons, bs)

LNoidleRecv ==
  /\ pc = "NoidleWait"
  /\ LET p == Poll(w, consumed, bstart) IN
     /\ Progress(p)
     /\ CASE p.st = "pend" -> Goto(p.w, pc, queue, cur, p.consumed, p.bstart)
          [] p.st = "resp" ->
               IF IsAck(p.lines) THEN Goto(ExitW(WClosingEvent(p.w, "invalid_response"), cur), "Exit", <<>>, 0, p.consumed, p.bstart)
               ELSE IF Mutant = "forward_noidle_reply"
                    THEN Goto(Respond(SendEvents(p.w, EventsOf(p.lines)), cur, ResultOf(p.lines)), "NextWait", queue, 0, p.consumed, p.bstart)
               ELSE SendRequest(SendEvents(p.w, EventsOf(p.lines)), cur, p.consumed, p.bstart, queue)
          [] p.st = "eofclean" -> Goto(ExitW(p.w, cur), "Exit", <<>>, 0, p.consumed, p.bstart)
          [] OTHER -> Goto(ExitW(Respond(p.w, cur, Proto), 0), "Exit", <<>>, 0, p.consumed, p.bstart)

LReplyRecv ==
  /\ pc = "ReplyWait"
  /\ LET p == Poll(w, consumed, bstart) IN
     /\ Progress(p)
     /\ CASE p.st = "pend" -> Goto(p.w, pc, queue, cur, p.consumed, p.bstart)
          [] p.st = "resp" -> Goto(Respond(p.w, cur, ResultOf(p.lines)), "NextWait", queue, 0, p.consumed, p.bstart)
          [] p.st = "eofclean" -> Goto(ExitW(p.w, cur), "Exit", <<>>, 0, p.consumed, p.bstart)
          [] OTHER -> IF Mutant = "exit_without_answer" THEN Goto(ExitW(p.w, 0), "Exit", <<>>, 0, p.consumed, p.bstart)
                      ELSE Goto(Respond(p.w, cur, Proto), "NextWait", queue, 0, p.consumed, p.bstart)   \* ContinueAfterReplyError

LNextImmediate == /\ pc = "NextWait" /\ queue # <<>>
                  /\ SendRequest(w, Head(queue), consumed, consumed, Tail(queue))
LNextClosed == /\ pc = "NextWait" /\ queue = <<>> /\ ChanClosed
               /\ Goto(ExitW(w, 0), "Exit", <<>>, 0, consumed, consumed)
LTimerFire == /\ pc = "NextWait" /\ queue = <<>> /\ ~ChanClosed
              /\ IdleOrDieM(TRUE, w, consumed, consumed)
\* mutants of the idle discipline (self-tests; never enabled in the real configurations)
LMutSkipNoidle == /\ Mutant = "skip_noidle" /\ pc = "Idle" /\ queue # <<>>
                  /\ SendRequest(w, Head(queue), consumed, consumed, Tail(queue))
LMutNoReidle == /\ Mutant = "no_reidle" /\ pc = "NextWait" /\ queue = <<>> /\ ~ChanClosed
                /\ GotoM(TRUE, w, "Idle", queue, 0, consumed, consumed)

LoopStep == \/ LStart \/ LSelReply \/ LSelPend \/ LSelCmd(TRUE) \/ LSelCmd(FALSE) \/ LSelClosed(TRUE) \/ LSelClosed(FALSE)
            \/ LNoidleRecv \/ LReplyRecv \/ LNextImmediate \/ LNextClosed \/ LTimerFire \/ LMutSkipNoidle \/ LMutNoReidle

\* ---------------------------------------------------------------- environment
Env(ww, q, step) == /\ w' = ww /\ queue' = q /\ sched' = Append(sched, step)
                    /\ UNCHANGED <<pc, cur, consumed, bstart>>
NIssued(c) == Cardinality({k \in 1..Len(w.reqs) : w.reqs[k].c = c})
CmdsOf(c, n, sh) == [j \in 1..Len(sh) |-> Cmd(<<c, n, IF Len(sh) = 1 THEN 0 ELSE j>>, sh[j].fail, sh[j].pad)]

EIssue == \E c \in Callers, sh \in Shapes :
  /\ NIssued(c) < MaxSeq /\ w.handles > 0
  /\ LET n == NIssued(c) + 1
         w1 == WIssue(w, c, n, IF Len(sh) = 1 THEN "raw" ELSE "list", CmdsOf(c, n, sh), <<>>)
         ri == Len(w1.reqs) IN
     /\ IF pc = "Exit" THEN Env(Respond(w1, ri, Closed), queue, [op |-> "issue", c |-> c, a |-> 0, s |-> sh])
        ELSE Env(w1, Append(queue, ri), [op |-> "issue", c |-> c, a |-> 0, s |-> sh])
     /\ UNCHANGED nchg

ECancel == /\ AllowCancel
           /\ \E k \in 1..Len(w.reqs) :
              /\ w.reqs[k].st = "p"
              /\ \A j \in 1..(k - 1) : ~(w.reqs[j].c = w.reqs[k].c /\ w.reqs[j].st = "p")    \* oldest pending of that caller
              /\ Env(WCancel(w, w.reqs[k].c, w.reqs[k].n), queue, [op |-> "cancel", c |-> w.reqs[k].c, a |-> 0, s |-> <<>>])
           /\ UNCHANGED nchg

EDrop == /\ AllowDrop /\ w.handles > 0
         /\ Env(WDropHandle(w, w.handles - 1), queue, [op |-> "drop", c |-> w.handles - 1, a |-> 0, s |-> <<>>])
         /\ UNCHANGED nchg

EDeliver == \E n \in 1..(IF w.lostAt >= 0 THEN 0 ELSE w.wr - w.dl) :
            /\ Env(WDeliver(w, n), queue, [op |-> "deliver", c |-> 0, a |-> n, s |-> <<>>]) /\ UNCHANGED nchg

EChange == \E S \in SubSets :
           /\ nchg < MaxChanges /\ nchg' = nchg + 1 /\ ~w.silent
           /\ Env(WChange(w, S), queue, [op |-> "change", c |-> 0, a |-> 0, s |-> S])

EFault == \E k \in Faults :
          /\ w.fault = ""
          /\ Env(WFault(w, k, w.wr - w.dl), queue, [op |-> "fault", c |-> 0, a |-> 0, s |-> <<k>>])
          /\ UNCHANGED nchg

\* the loop is blocked: nothing happens until the environment moves
Blocked == \/ pc = "Exit"
           \/ /\ pc = "Idle" /\ queue = <<>> /\ ~ChanClosed /\ ~Progress(Poll(w, consumed, bstart))
           \/ /\ pc \in {"NoidleWait", "ReplyWait"} /\ ~Progress(Poll(w, consumed, bstart))
\* the observer's quiescent point (the harness logs one after every settled batch): the no-loss clause of C04
\* is evaluated and what is certainly lost (F-C04-2) is written off
EQuiesce == /\ Blocked /\ WQuiescent(w) # w
            /\ w' = WQuiescent(w) /\ UNCHANGED <<pc, queue, cur, consumed, bstart, nchg, sched>>

EnvStep == EIssue \/ ECancel \/ EDrop \/ EDeliver \/ EChange \/ EFault \/ EQuiesce
Next == LoopStep \/ EnvStep
Spec == Init /\ [][Next]_vars
FairSpec == Spec /\ WF_vars(LoopStep) /\ WF_vars(EDeliver)

\* ---------------------------------------------------------------- properties
\* every monitor of World.tla, evaluated on every transition (F-C04-2 is the named deviation)
NotKnown(v) == v[3] # "F-C04-2"
Inv_Monitors == SelectSeq(w.viol, NotKnown) = <<>>
Inv_Strict   == w.viol = <<>>

\* C04 (no loss) at every blocked state: what has been completely read has been delivered as events
Inv_Quiescent == Blocked => SelectSeq(WQuiescent(w).viol, NotKnown) = <<>>
Inv_QuiescentStrict == Blocked => WQuiescent(w).viol = <<>>

\* C08 / C01 at every drained state
Unresolved == {<<w.reqs[k].c, w.reqs[k].n>> : k \in {j \in 1..Len(w.reqs) : w.reqs[j].st = "p"}}
Drained == Blocked /\ (w.dl = w.wr \/ w.lostAt >= 0)
Fin == [closed |-> pc = "Exit", closedKnown |-> w.handles > 0, evEnded |-> pc = "Exit", ioDropped |-> pc = "Exit", unresolved |-> Unresolved, alive |-> w.fault = ""]
Inv_Final == Drained => SelectSeq(WFinal(w, Fin).viol, NotKnown) = <<>>

\* C05 liveness: after a reply the loop re-idles (or serves the next request, or ends)
ReidleEventually == [](pc = "NextWait" => <>(pc # "NextWait"))
\* C08 liveness: once the connection has failed and everything was delivered, every request resolves
AllResolveEventually == [](w.fault \in {"eof", "rerr"} => <>(Unresolved = {}))
\* C01 liveness (fair loop, fair delivery, no faults): every issued request is eventually answered
AllAnswered == [](Unresolved # {} => <>(Unresolved = {}))

\* ---------------------------------------------------------------- constants for the configurations
OKC == [fail |-> FALSE, pad |-> 0]
FAILC == [fail |-> TRUE, pad |-> 0]
FAILP == [fail |-> TRUE, pad |-> 1]          \* fails after printing one line
Shapes1 == {<<OKC>>}
Shapes2 == {<<OKC>>, <<FAILP>>, <<OKC, FAILC>>}
Shapes3 == {<<OKC>>, <<FAILC>>, <<OKC, FAILP>>, <<OKC, OKC>>, <<FAILP, OKC>>}
PL == <<112>>
MX == <<109>>
Subs1 == {<<PL>>}
Subs2 == {<<PL>>, <<MX>>, <<PL, MX>>}
NoFaults == {}
AllFaults == {"eof", "rerr", "werr", "garbage"}

\* ---------------------------------------------------------------- generator (spec -> implementation)
\* environment schedules are projected out of the behaviours; VIEW hides the history variable
Bound == Len(sched) <= 80
=============================================================================
