-------------------------------- MODULE Wire --------------------------------
\* MPD's response grammar (server -> client): abstract responses, the server's serialisation
\* Encode, and RefDecode - the segmentation-free meaning of a byte stream followed by EOF,
\* defined line by line from the protocol grammar (NOT from the client's parser):
\*
\*   response  = { frame "list_OK\n" } frame "OK\n"  |  { frame "list_OK\n" } [junk] "ACK [c@i] {cmd} msg\n"
\*   frame     = { key ": " value "\n" } [ "binary: " N "\n" <N bytes> "\n" ]
\*   key       = 1*( ALPHA / "_" / "-" )          value = valid UTF-8 without LF
\*   c, i, N   = 1*DIGIT, value <= 2^64-1         cmd   = *( ALPHA / "_" )
\*
\* A response value is [frames |-> Seq(Frame), err |-> <<>> | <<code, idx, cmd, msg>>] with
\* Frame = [fields |-> Seq(<<key, value>>), bin |-> <<>> | <<payload>>]; code and idx are digit
\* strings without leading zeros (64-bit values do not fit TLC integers).
EXTENDS Bytes

OKLINE   == <<79,75>>
LISTOK   == <<108,105,115,116,95,79,75>>
ACKSP    == <<65,67,75,32>>
BINSP    == <<98,105,110,97,114,121,58,32>>
COLSP    == <<58,32>>
U64MAX   == <<49,56,52,52,54,55,52,52,48,55,51,55,48,57,53,53,49,54,49,53>>

Alpha(c) == (c >= 65 /\ c <= 90) \/ (c >= 97 /\ c <= 122)
Digit(c) == c >= 48 /\ c <= 57
KeyCh(c) == Alpha(c) \/ c = 95 \/ c = 45
CmdCh(c) == Alpha(c) \/ c = 95
AllOf(s, P(_)) == \A k \in 1..Len(s) : P(s[k])

RECURSIVE StripZ(_)
StripZ(d) == IF Len(d) > 1 /\ d[1] = 48 THEN StripZ(Tail(d)) ELSE d
RECURSIVE LexGt(_, _)
LexGt(a, b) == IF a = <<>> THEN FALSE ELSE IF a[1] # b[1] THEN a[1] > b[1] ELSE LexGt(Tail(a), Tail(b))
DigitsGt(d0, m) == LET d == StripZ(d0) IN IF Len(d) # Len(m) THEN Len(d) > Len(m) ELSE LexGt(d, m)
IsU64(d) == d # <<>> /\ AllOf(d, Digit) /\ ~DigitsGt(d, U64MAX)
RECURSIVE ValOf(_, _)
ValOf(d, acc) == IF d = <<>> THEN acc ELSE ValOf(Tail(d), acc * 10 + (d[1] - 48))
BigN == 100000000
NumVal(d0) == LET d == StripZ(d0) IN IF Len(d) > 8 THEN BigN ELSE ValOf(d, 0)     \* lengths beyond any model stream are "big"
RECURSIVE DecR(_)
DecR(n) == IF n < 10 THEN <<48 + n>> ELSE Append(DecR(n \div 10), 48 + (n % 10))

\* ---------------------------------------------------------------- encoder (the server's side)
EmptyFrame == [fields |-> <<>>, bin |-> <<>>]
RECURSIVE Cat(_)
Cat(ss) == IF ss = <<>> THEN <<>> ELSE Head(ss) \o Cat(Tail(ss))
EncField(kv) == kv[1] \o COLSP \o kv[2] \o <<10>>
EncBin(p) == BINSP \o DecR(Len(p)) \o <<10>> \o p \o <<10>>
EncFrame(f) == Cat([k \in 1..Len(f.fields) |-> EncField(f.fields[k])]) \o (IF f.bin = <<>> THEN <<>> ELSE EncBin(f.bin[1]))
EncAck(e) == ACKSP \o <<91>> \o e[1] \o <<64>> \o e[2] \o <<93, 32, 123>> \o e[3] \o <<125, 32>> \o e[4] \o <<10>>
\* list form: every frame is followed by list_OK; single form: exactly one frame (or none before an error)
Encode(r, list) ==
  IF list THEN Cat([k \in 1..Len(r.frames) |-> EncFrame(r.frames[k]) \o LISTOK \o <<10>>])
               \o (IF r.err = <<>> THEN OKLINE \o <<10>> ELSE EncAck(r.err))
  ELSE IF r.err = <<>> THEN EncFrame(r.frames[1]) \o OKLINE \o <<10>>
  ELSE EncAck(r.err)
\* a failing command may have printed part of its output before the ACK: those lines (junk) belong to no frame
EncodeJ(r, list, junk) ==
  IF r.err = <<>> THEN Encode(r, list)
  ELSE (IF list THEN Cat([k \in 1..Len(r.frames) |-> EncFrame(r.frames[k]) \o LISTOK \o <<10>>]) ELSE <<>>)
       \o Cat([k \in 1..Len(junk) |-> EncField(junk[k])]) \o EncAck(r.err)

\* ---------------------------------------------------------------- reference decoder
\* an ACK line (without LF): [ok, e]
ParseAck(l) ==
  LET bad == [ok |-> FALSE, e |-> <<>>] IN
  IF ~HasPrefixAt(l, 1, ACKSP \o <<91>>) THEN bad ELSE
  LET a == FirstIdx(l, 6, LAMBDA c : ~Digit(c)) IN
  IF a = 0 \/ a = 6 \/ l[a] # 64 THEN bad ELSE
  LET b == FirstIdx(l, a + 1, LAMBDA c : ~Digit(c)) IN
  IF b = 0 \/ b = a + 1 \/ ~HasPrefixAt(l, b, <<93, 32, 123>>) THEN bad ELSE
  LET c == FirstIdx(l, b + 3, LAMBDA x : ~CmdCh(x)) IN
  IF c = 0 \/ ~HasPrefixAt(l, c, <<125, 32>>) THEN bad ELSE
  LET code == SubSeq(l, 6, a - 1)  idx == SubSeq(l, a + 1, b - 1)  msg == SubSeq(l, c + 2, Len(l)) IN
  IF ~IsU64(code) \/ ~IsU64(idx) \/ ~ValidUtf8(msg) THEN bad
  ELSE [ok |-> TRUE, e |-> <<StripZ(code), StripZ(idx), SubSeq(l, b + 3, c - 1), msg>>]

\* a key-value line: [ok, k, v]
ParseField(l) ==
  LET j == FirstIdx(l, 1, LAMBDA c : ~KeyCh(c)) IN
  IF j = 0 \/ j = 1 \/ ~HasPrefixAt(l, j, COLSP) THEN [ok |-> FALSE, k |-> <<>>, v |-> <<>>]
  ELSE LET v == SubSeq(l, j + 2, Len(l)) IN
       IF ValidUtf8(v) THEN [ok |-> TRUE, k |-> SubSeq(l, 1, j - 1), v |-> v] ELSE [ok |-> FALSE, k |-> <<>>, v |-> <<>>]

IsBinHeader(l) == HasPrefixAt(l, 1, BINSP) /\ IsU64(SubSeq(l, 9, Len(l)))

\* builder: [st: "init" | "prog" | "list", cur, done]
B0 == [st |-> "init", cur |-> EmptyFrame, done |-> <<>>]
AddField(bl, k, v) == [bl EXCEPT !.st = IF @ = "init" THEN "prog" ELSE @, !.cur.fields = Append(@, <<k, v>>)]
AddBin(bl, p) == [bl EXCEPT !.st = IF @ = "init" THEN "prog" ELSE @, !.cur.bin = <<p>>]
EndFrame(bl) == [st |-> "list", cur |-> EmptyFrame, done |-> IF bl.st = "list" THEN Append(bl.done, bl.cur) ELSE <<bl.cur>>]
FinishR(bl) == [frames |-> IF bl.st = "list" THEN bl.done ELSE <<bl.cur>>, err |-> <<>>]
ErrR(bl, e) == [frames |-> IF bl.st = "list" THEN bl.done ELSE <<>>, err |-> e]

NoResp == [frames |-> <<>>, err |-> <<>>]
Out(t, r) == [t |-> t, resp |-> r]

\* is the partial last line p (no LF in it) a proper prefix of some valid line?  TRUE only when certainly so.
RECURSIVE AckViable(_, _, _, _)
\* a small automaton over l from position i; ds = start index of the digit string being read (code or index): a number that
\* already exceeds 2^64-1 can no longer become valid
AckViable(l, i, st, ds) ==
  IF i > Len(l) THEN (st \notin {11, 21} \/ ~DigitsGt(SubSeq(l, ds, Len(l)), U64MAX)) ELSE
  LET c == l[i] IN
  CASE st = 0 -> (i <= 5 /\ c = (ACKSP \o <<91>>)[i] /\ AckViable(l, i + 1, IF i = 5 THEN 1 ELSE 0, 0))
    [] st = 1 -> IF Digit(c) THEN AckViable(l, i + 1, 11, i) ELSE FALSE                   \* first code digit
    [] st = 11 -> IF Digit(c) THEN AckViable(l, i + 1, 11, ds)
                  ELSE c = 64 /\ ~DigitsGt(SubSeq(l, ds, i - 1), U64MAX) /\ AckViable(l, i + 1, 2, 0)
    [] st = 2 -> IF Digit(c) THEN AckViable(l, i + 1, 21, i) ELSE FALSE
    [] st = 21 -> IF Digit(c) THEN AckViable(l, i + 1, 21, ds)
                  ELSE c = 93 /\ ~DigitsGt(SubSeq(l, ds, i - 1), U64MAX) /\ AckViable(l, i + 1, 3, 0)
    [] st = 3 -> c = 32 /\ AckViable(l, i + 1, 4, 0)
    [] st = 4 -> c = 123 /\ AckViable(l, i + 1, 5, 0)
    [] st = 5 -> IF CmdCh(c) THEN AckViable(l, i + 1, 5, 0) ELSE c = 125 /\ AckViable(l, i + 1, 6, 0)
    [] st = 6 -> c = 32 /\ AckViable(l, i + 1, 7, 0)
    [] OTHER -> c < 128 /\ AckViable(l, i + 1, 7, 0)                                         \* message: ASCII only counts as certain
Viable(p) ==
  \/ IsPrefixOf(p, OKLINE) \/ IsPrefixOf(p, LISTOK)
  \/ AckViable(p, 1, 0, 0)
  \/ LET j == FirstIdx(p, 1, LAMBDA c : ~KeyCh(c)) IN
     \/ (j = 0 /\ p # <<>>)                                  \* only key characters so far
     \/ (j > 1 /\ j = Len(p) /\ p[j] = 58)                   \* "key:"
     \/ (j > 1 /\ HasPrefixAt(p, j, COLSP) /\ \A k \in (j + 2)..Len(p) : p[k] < 128)   \* "key: ascii..."

\* RefDecode(s): the sequence of outcomes of successive receive calls on stream s followed by EOF, up to and
\* including the first terminal outcome.  Terminal outcomes: "clean", "ueof", "invalid"; where the properties
\* leave the kind open (a non-viable partial line at EOF) the terminal outcome is "ueof|invalid".
RECURSIVE RD(_, _, _, _)
RD(s, i, bl, out) ==
  IF i > Len(s) THEN Append(out, Out(IF bl.st = "init" THEN "clean" ELSE "ueof", NoResp))
  ELSE LET p == IndexOf(s, i, 10) IN
  IF p = 0 THEN Append(out, Out(IF Viable(SubSeq(s, i, Len(s))) THEN "ueof" ELSE "ueof|invalid", NoResp))
  ELSE LET l == SubSeq(s, i, p - 1) IN
    IF l = OKLINE THEN RD(s, p + 1, B0, Append(out, Out("resp", FinishR(bl))))
    ELSE IF l = LISTOK THEN RD(s, p + 1, EndFrame(bl), out)
    ELSE IF HasPrefixAt(l, 1, ACKSP) THEN
         (LET a == ParseAck(l) IN IF a.ok THEN RD(s, p + 1, B0, Append(out, Out("resp", ErrR(bl, a.e)))) ELSE Append(out, Out("invalid", NoResp)))
    ELSE IF IsBinHeader(l) THEN
         (LET n == NumVal(SubSeq(l, 9, Len(l))) IN
          IF p + n + 1 > Len(s) THEN Append(out, Out("ueof", NoResp))           \* payload (or its LF) not complete
          ELSE IF s[p + n + 1] # 10 THEN Append(out, Out("invalid", NoResp))
          ELSE RD(s, p + n + 2, AddBin(bl, SubSeq(s, p + 1, p + n)), out))
    ELSE LET f == ParseField(l) IN
         IF f.ok THEN RD(s, p + 1, AddField(bl, f.k, f.v), out) ELSE Append(out, Out("invalid", NoResp))
RefDecode(s) == RD(s, 1, B0, <<>>)

\* does an observed terminal tag agree with the reference one?
TermOk(ref, got) == IF ref = "ueof|invalid" THEN got \in {"ueof", "invalid"} ELSE got = ref
SameOutcomes(ref, got) ==
  /\ Len(ref) = Len(got)
  /\ \A k \in 1..Len(ref) : IF ref[k].t = "resp" THEN got[k] = ref[k] ELSE (TermOk(ref[k].t, got[k].t))
=============================================================================
