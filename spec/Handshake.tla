------------------------------ MODULE Handshake ------------------------------
\* do_connect as coded (mpd_client/src/client/mod.rs) over AsyncConnection::connect: read the greeting however it
\* is segmented, send the password first if one is given, wait for the server's verdict, only then start the
\* loop (which writes idle).  Composed with World.tla (server, pipe, faults) and checked against its C18 / C05
\* monitors for every greeting kind, every half-line segmentation, every verdict and a close at every point.
EXTENDS World
CONSTANTS Greetings,      \* subset of {"valid", "invalid", "cut_viable", "cut_bad"}
          Passwords,      \* subset of {"none", "good", "bad"}
          Auths,          \* scripted verdicts: subset of {"ok", "ack", "ack4", "garbage", "eof", "partial"}
          Mut             \* "" = as coded; seeded model mutants (vacuity guards for the C18 monitors):
                          \* "eof_is_ok" (a close instead of the verdict counts as accepted), "skip_verdict" (connected right after
                          \* writing the password), "accept_invalid" (a malformed greeting line is accepted)

VARIABLES w, pc, g, res
vars == <<w, pc, g, res>>
NoPic == [embedded |-> -1, file |-> -1, hasMime |-> FALSE, mime |-> <<>>, limit |-> 1, embedded_ack |-> 0, file_ack |-> 0, vary |-> FALSE, ackp |-> FALSE, tfirst |-> FALSE]
PW == <<112>>
GreetLine(k) == Line("greet", <<>>, <<k>>, 0, 0)
Init == \E gk \in Greetings, p \in Passwords, a \in Auths :
          /\ g = gk /\ pc = "greet" /\ res = ""
          /\ w = Emit(InitW(p # "none", IF p = "none" THEN <<>> ELSE PW, IF p = "bad" THEN <<113>> ELSE PW, p # "none", a, NoPic),
                      "greet", <<GreetLine(gk)>>, 0)

Cut == g \in {"cut_viable", "cut_bad"}
\* environment
EDeliver == /\ w.lostAt < 0 /\ \E n \in 1..(w.wr - w.dl) : w' = WDeliver(w, n) /\ UNCHANGED <<pc, g, res>>
EClose == /\ w.fault = "" /\ pc # "done" /\ w' = WFault(w, "eof", w.wr - w.dl) /\ UNCHANGED <<pc, g, res>>
\* a greeting without line end: the peer can only close (or stay silent) - the second unit never arrives
CutClose == /\ Cut /\ w.fault = "" /\ w.dl = 1 /\ w' = WFault(w, "eof", w.wr - w.dl) /\ UNCHANGED <<pc, g, res>>

\* reference verdict on the part of the greeting that was delivered before the end (Bytes.tla: GreetingRef, abstractly)
CutOf(ww) == IF ww.dl = 0 THEN "viable"
             ELSE IF g \in {"valid", "cut_viable"} THEN (IF ww.dl >= 2 /\ g = "valid" THEN "" ELSE "viable")
             ELSE IF ww.dl >= 2 /\ g = "invalid" THEN "" ELSE "either"
Fail(ww, err) == /\ w' = WConnected(ww, FALSE, err, <<>>, 0, g = "valid" /\ ww.dl >= 2, <<"v">>, CutOf(ww))
                 /\ pc' = "done" /\ res' = err /\ UNCHANGED g
\* AsyncConnection::connect: one read, then parse
ReadGreeting ==
  /\ pc = "greet" /\ (w.dl > w.rd \/ w.fault = "eof")
  /\ IF w.dl > w.rd THEN
        LET w1 == WRead(w, w.dl - w.rd) IN
        IF (g = "invalid" /\ Mut # "accept_invalid") \/ (g = "cut_bad" /\ w1.rd >= 1) THEN Fail(w1, "invalid")               \* a wrong byte is seen as soon as it is read
        ELSE IF w1.rd < 2 \/ Cut THEN /\ w' = w1 /\ UNCHANGED <<pc, g, res>>                    \* incomplete: read again
        ELSE IF ~w.hasPw THEN                                                                     \* greeting complete, no password: spawn the loop -> idle
             /\ w' = WConnected(WCliLine(w1, CL("idle", <<>>, FALSE, 0)), TRUE, "", <<"v">>, 1, TRUE, <<"v">>, "")
             /\ pc' = "done" /\ res' = "ok" /\ UNCHANGED g
        ELSE IF Mut = "skip_verdict" THEN
             /\ w' = WConnected(WCliLine(WCliLine(w1, CL("password", w.pw, FALSE, 0)), CL("idle", <<>>, FALSE, 0)), TRUE, "", <<"v">>, 1, TRUE, <<"v">>, "")
             /\ pc' = "done" /\ res' = "ok" /\ UNCHANGED g
        ELSE /\ w' = WCliLine(w1, CL("password", w.pw, FALSE, 0)) /\ pc' = "authwait" /\ UNCHANGED <<g, res>>
     ELSE Fail(WReadEof(w), "io:UnexpectedEof")
\* the reply to the password command is one line
Verdict ==
  /\ pc = "authwait" /\ (w.dl > w.rd \/ w.fault = "eof")
  /\ IF w.dl > w.rd THEN
        LET w1 == WRead(w, w.dl - w.rd)
            rep == w1.reps[Len(w1.reps)]
            l == w1.out[rep.last].l IN
        IF l.t = "bad" THEN Fail(w1, "invalid")
        ELSE IF w1.rd < rep.end THEN /\ w' = w1 /\ UNCHANGED <<pc, g, res>>
        ELSE IF l.t = "ack" THEN Fail(w1, "incorrect_password")
        ELSE /\ w' = WConnected(WCliLine(w1, CL("idle", <<>>, FALSE, 0)), TRUE, "", <<"v">>, 1, TRUE, <<"v">>, "")
             /\ pc' = "done" /\ res' = "ok" /\ UNCHANGED g
     ELSE IF Mut = "eof_is_ok" THEN
             /\ w' = WConnected(WCliLine(WReadEof(w), CL("idle", <<>>, FALSE, 0)), TRUE, "", <<"v">>, 1, TRUE, <<"v">>, "")
             /\ pc' = "done" /\ res' = "ok" /\ UNCHANGED g
     ELSE Fail(WReadEof(w), "io:UnexpectedEof")
Next == EDeliver \/ EClose \/ CutClose \/ ReadGreeting \/ Verdict
Spec == Init /\ [][Next]_vars
Inv_C18 == w.viol = <<>>
\* connecting succeeds exactly when the first line is a valid greeting (and the password, if any, was accepted)
Inv_Iff == (pc = "done" /\ res = "ok") => (g = "valid" /\ (w.hasPw => w.phase = "up"))
AllG == {"valid", "invalid", "cut_viable", "cut_bad"}
AllP == {"none", "good", "bad"}
AllA == {"ok", "ack", "ack4", "ack5", "garbage", "eof", "partial"}
=============================================================================
