------------------------------ MODULE NamesGen ------------------------------
EXTENDS Names, TLC, Json, SequencesExt
VARIABLE i
\* ---- generator: candidate tag strings (every known name in 4 casings, all strings of length <= 3 over a class
\* alphabet) and catch-all contents, printed once as JSON
Syms == {<<97>>, <<90>>, <<95>>, <<45>>, <<48>>, <<32>>, <<195,169>>}
Str1 == Syms
Str2 == {a \o b : a \in Syms, b \in Syms}
Str3 == {a \o b : a \in Str2, b \in Syms}
Casings(S) == S \cup {LowerS(t) : t \in S} \cup {UpperS(t) : t \in S} \cup {MixS(t) : t \in S}
TagStrings == {<<>>} \cup Str1 \cup Str2 \cup Str3 \cup Casings(KnownTags) \cup Casings({<<97,110,121>>, <<65,110,121>>, <<97,78,121>>}) \cup {<<97,110,121>>, <<65,114,116,105,115,116,32>>, <<65,114,116,105,115,116,10>>, <<102,105,108,101>>}
TagOthers == Casings(KnownTags) \cup Casings({<<97,110,121>>}) \cup {<<97,110,121>>, <<120>>, <<>>, <<65,114,116,105,115,116,32>>}
SubOthers == Casings(KnownSubsystems) \cup {<<122,122,102,117,116,117,114,101>>, <<>>, <<112,108,97,121,101,114,32>>}
GenEmit == PrintT(<<"CASE", ToJson([tag_strings |-> SetToSeq(TagStrings), tag_others |-> SetToSeq(TagOthers), sub_others |-> SetToSeq(SubOthers)])>>)
GenInit == i = 0 /\ GenEmit
GenNext == UNCHANGED i
=============================================================================
