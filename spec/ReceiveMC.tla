----------------------------- MODULE ReceiveMC -----------------------------
\* Configuration module for the exhaustive design check of Receive.tla: the stream set is computed by TLC
\* from abstract responses (Encode), every truncation of them, single-edit mutations over a class alphabet,
\* numeric edge lines and hand-written malformed streams.
EXTENDS Receive, WireGen

A(fs, b) == [r |-> [frames |-> <<[fields |-> fs, bin |-> b]>>, err |-> <<>>], list |-> FALSE, junk |-> <<>>]
L(frs, e) == [r |-> [frames |-> frs, err |-> e], list |-> TRUE, junk |-> <<>>]
J(frs, e, lst, j) == [r |-> [frames |-> frs, err |-> e], list |-> lst, junk |-> j]
F(fs, b) == [fields |-> fs, bin |-> b]
E1 == << <<53>>, <<48>>, <<>>, <<120>> >>
E2 == << <<53,48>>, <<49>>, <<112,108,97,121>>, <<120,32,121>> >>
DesignAbs == {
  A(<<>>, <<>>),
  A(<<<<Ka, <<98>>>>>>, <<>>),
  A(<<<<Ka, <<79,75>>>>, <<KB, <<>>>>>>, <<>>),
  A(<<<<Ka, <<195,169>>>>>>, <<>>),
  A(<<>>, <<<<79,75,10>>>>),
  A(<<<<Ka, <<98,105,110,97,114,121,58,32,51>>>>>>, <<<<10>>>>),
  A(<<<<Ka, <<98>>>>>>, <<<<>>>>),
  [r |-> [frames |-> <<>>, err |-> E1], list |-> FALSE, junk |-> <<>>],
  J(<<>>, E1, FALSE, <<<<Ka, <<98>>>>>>),
  J(<<F(<<<<Ka, <<98>>>>>>, <<>>)>>, E2, TRUE, <<<<KB, <<79,75>>>>>>),
  L(<<F(<<<<Ka, <<98>>>>>>, <<>>), F(<<>>, <<>>)>>, <<>>),
  L(<<F(<<>>, <<<<0,255>>>>)>>, <<>>),
  L(<<F(<<<<Ka, <<98>>>>>>, <<>>), F(<<>>, <<<<79,75,10>>>>), F(<<>>, <<>>)>>, <<>>),      \* a payload in the middle frame, none in the last
  L(<<F(<<<<Ka, <<98>>>>>>, <<>>)>>, E2),
  L(<<>>, E2) }
Base == {Enc(a) : a \in DesignAbs}
Pairs == {Enc(a) \o Enc(b) : a \in {A(<<>>, <<>>), A(<<<<Ka, <<98>>>>>>, <<>>), A(<<>>, <<<<79,75,10>>>>), [r |-> [frames |-> <<>>, err |-> E1], list |-> FALSE, junk |-> <<>>]},
                             b \in {A(<<<<KB, <<79,75>>>>>>, <<>>), L(<<F(<<>>, <<>>)>>, <<>>)}}
Truncs(S) == UNION {{SubSeq(s, 1, n) : n \in 0..(Len(s) - 1)} : s \in S}
\* single-edit mutations over a class alphabet (LF, blank, colon, digit, letter, 0xFF, NUL)
Alphabet == {10, 32, 58, 48, 65, 255, 0}
Deletes(s) == {SubSeq(s, 1, k - 1) \o SubSeq(s, k + 1, Len(s)) : k \in 1..Len(s)}
Flips(s) == {[s EXCEPT ![k] = c] : k \in 1..Len(s), c \in Alphabet}
Inserts(s) == {SubSeq(s, 1, k) \o <<c>> \o SubSeq(s, k + 1, Len(s)) : k \in 0..Len(s), c \in Alphabet}
MutBase == {Enc(A(<<<<Ka, <<98>>>>>>, <<>>)), Enc(A(<<>>, <<<<79,75,10>>>>)), Enc([r |-> [frames |-> <<>>, err |-> E1], list |-> FALSE, junk |-> <<>>]),
            Enc(L(<<F(<<<<Ka, <<98>>>>>>, <<>>)>>, <<>>))}
Muts == UNION {Deletes(s) \cup Flips(s) \cup Inserts(s) : s \in MutBase}
Raw == {
  <<97,58,32,98,10,103,97,114,98,97,103,101,10,79,75,10>>,
  <<103,97,114,98,97,103,101,10,79,75,10>>,
  <<98,105,110,97,114,121,58,32,50,10,97,98,88,10,79,75,10>>,
  <<97,58,32,255,10,79,75,10>>,
  <<65,67,75,32,91,57,57,57,57,57,57,57,57,57,57,57,57,57,57,57,57,57,57,57,57,64,48,93,32,123,125,32,120,10>>,
  <<65,67,75,32,91,49,56,52,52,54,55,52,52,48,55,51,55,48,57,53,53,49,54,49,53,64,48,93,32,123,125,32,120,10>>,
  <<98,105,110,97,114,121,58,32,49,56,52,52,54,55,52,52,48,55,51,55,48,57,53,53,49,54,49,54,10,79,75,10>>,
  <<98,105,110,97,114,121,58,32,49,56,52,52,54,55,52,52,48,55,51,55,48,57,53,53,49,54,49,53,10,79,75,10>>,
  <<98,105,110,97,114,121,58,32,57,10,97,98>>,
  <<98,105,110,97,114,121,58,32,48,51,10,97,98,99,10,79,75,10>>,
  <<102,111,111,32,98,97,114>>,
  <<65,67,75,32,91,53,64,48,93,32,123,112,108,97,121,50,125,32,120,10>>,
  <<65,67,75,58,32,120,10,79,75,10>>,
  <<10>>, <<79,75,13,10>>, <<97,58,98,10>>, <<97,58,32,0,10,79,75,10>>,
  \* partial ACK lines (no LF) whose number already exceeds 2^64-1: no continuation is valid (regression of a false alarm of this model)
  <<65,67,75,32,91,49,56,52,52,54,55,52,52,48,55,51,55,48,57,53,53,49,54,48,49,53,64,48,93,32,123,97,125,32>>,
  <<65,67,75,32,91,53,64,57,57,57,57,57,57,57,57,57,57,57,57,57,57,57,57,57,57,57,57>> }
StreamsFull  == SetToSeq(Base \cup Pairs \cup Truncs(Base) \cup Muts \cup Raw)
StreamsQuick == SetToSeq(Base \cup Truncs({Enc(L(<<F(<<<<Ka, <<98>>>>>>, <<>>)>>, E2)), Enc(A(<<<<Ka, <<195,169>>>>>>, <<<<79,75,10>>>>))}) \cup Raw
                         \cup Deletes(Enc(A(<<<<Ka, <<98>>>>>>, <<>>))) \cup Flips(Enc(A(<<>>, <<<<79,75,10>>>>))))
=============================================================================
