------------------------------ MODULE LoopTrace ------------------------------
\* Hook-level trace validation: binds the implementation-shaped model Loop.tla to the code.
\*
\* The trace (recorded by `mpdv session` with --cfg mpd_client_verif) interleaves environment steps, what
\* the mock transport / callers observed, and HOOK events emitted by the code at the boundaries of the loop's
\* blocking segments.  Two worlds are stepped side by side:
\*   wo - the OBSERVED world, replayed exactly as in SessionTrace.tla,
\*   w, pc, queue, cur, consumed, bstart - the MODEL, which sees only the environment steps and, at every hook
\*        event, takes the Loop.tla action that the hook names (its guard must hold in the model state).
\* At every quiescent point the model must predict what was observed: bytes read, lines written, server mode,
\* replies, which requests reached the server / were answered.  The recv_dropped hook is bound to the named
\* deviation DropPartialReply: it reports parsed-lines-lost exactly when the model's receive had consumed lines.
\* A mismatch is model DRIFT (the exhaustive result no longer transfers to this tree) - printed as a NOTE, never a
\* property verdict; the rest of that run is skipped and validation resumes at the next run.
EXTENDS Loop, Json, IOUtils

VARIABLES i, run, wo, drift, sawRead, dropIP, started
tvars == <<i, run, wo, drift, sawRead, dropIP, started>>

ST == INSTANCE SessionTrace WITH w <- wo
Recs == ST!Recs

EnvRecs == {"issue", "cancel", "drop_handle", "deliver", "change", "fault", "timeout", "wstall", "wresume"}
KeepModel == UNCHANGED <<w, pc, queue, cur, consumed, bstart, nchg, sched>>

\* what the model must predict about the observable world at quiescent points
TProj(ww) == <<ww.rd, ww.nlines, ww.lastK, ww.mode, Len(ww.reps), [k \in 1..Len(ww.reqs) |-> <<ww.reqs[k].seen, ww.reqs[k].st>>], ww.evEnded, ww.nClosingEv>>

TNote(what) == PrintT(<<"NOTE", "model-drift", run, i + 1, what>>)
TDrift(what) == TNote(what) /\ drift' = TRUE /\ KeepModel

\* the model takes action A if it is enabled, otherwise the run drifts
TTake(A, name) == IF ENABLED A THEN A /\ UNCHANGED drift ELSE TDrift(<<"model action not enabled", name, pc>>)

TExitAction == \/ (LStart /\ pc' = "Exit") \/ (LSelReply /\ pc' = "Exit") \/ (LSelClosed(sawRead) /\ pc' = "Exit")
              \/ (LNoidleRecv /\ pc' = "Exit") \/ (LReplyRecv /\ pc' = "Exit") \/ (LNextClosed /\ pc' = "Exit")
              \/ (LNextImmediate /\ pc' = "Exit") \/ (LTimerFire /\ pc' = "Exit") \/ (LSelCmd(sawRead) /\ pc' = "Exit")

\* silent progress of a pending receive (no hook): complete lines move into the builder
TPendStep == \/ LSelPend
            \/ (LNoidleRecv /\ pc' = pc)
            \/ (LReplyRecv /\ pc' = pc)

THookStep(r) ==
  IF ~started THEN
     (IF r.h = "loop_start"
      THEN \* the handshake is outside Loop.tla: the model starts from the observed world, idle already written
           /\ w' = [wo EXCEPT !.handles = wo.nhCfg, !.phase = "up"] /\ pc' = "Idle" /\ queue' = <<>> /\ cur' = 0 /\ consumed' = wo.rd /\ bstart' = wo.rd /\ nchg' = 0 /\ sched' = <<>>
           /\ UNCHANGED drift
      ELSE KeepModel /\ UNCHANGED drift)
  ELSE IF drift THEN KeepModel /\ UNCHANGED drift
  ELSE CASE r.h = "idle_reply_handled" -> TTake(LSelReply, "LSelReply")
         [] r.h = "command_taken" ->
              \* binding of the drop guard: lines are lost with the dropped future iff the model's receive had consumed some
              (LET p == IF sawRead THEN Poll(w, consumed, bstart) ELSE PR("pend", w, consumed, bstart, <<>>) IN
               IF (dropIP = 1) # (p.bstart < p.consumed) THEN TDrift(<<"recv_dropped.in_progress disagrees with DropPartialReply", dropIP, p.bstart, p.consumed>>)
               ELSE TTake(LSelCmd(sawRead), "LSelCmd"))
         [] r.h = "noidle_reply" -> TTake(LNoidleRecv, "LNoidleRecv")
         [] r.h = "reply_forwarded" -> TTake(LReplyRecv, "LReplyRecv")
         [] r.h = "next_immediate" -> TTake(LNextImmediate, "LNextImmediate")
         [] r.h = "next_timeout" -> TTake(LTimerFire, "LTimerFire")
         [] r.h = "loop_exit" -> IF pc = "Exit" THEN KeepModel /\ UNCHANGED drift ELSE TTake(TExitAction, "exit")
         [] OTHER -> KeepModel /\ UNCHANGED drift      \* sel_reply, request_sent, recv_dropped: no model step of their own

\* environment steps reach the model exactly as they reach the observed world (same World.tla operators)
TEnvStep(r) ==
  IF ~started \/ drift THEN KeepModel /\ UNCHANGED drift
  ELSE /\ w' = IF r.e = "issue" /\ pc = "Exit" THEN Respond(ST!Step(w, r), Len(w.reqs) + 1, Closed) ELSE ST!Step(w, r)
       /\ queue' = IF r.e = "issue" /\ pc # "Exit" THEN Append(queue, Len(w.reqs) + 1) ELSE queue
       /\ UNCHANGED <<pc, cur, consumed, bstart, nchg, sched, drift>>

TCheck(ww) == IF TProj(ww) = TProj(wo') THEN UNCHANGED drift
             ELSE TNote(<<"model and observation disagree at a quiescent point", TProj(ww), TProj(wo')>>) /\ drift' = TRUE
TQuiescentStep ==
  IF ~started \/ drift THEN KeepModel /\ UNCHANGED drift
  ELSE IF ENABLED TPendStep THEN TPendStep /\ TCheck(w')
  ELSE KeepModel /\ TCheck(w)

TInit == /\ i = 0 /\ run = -1 /\ drift = FALSE /\ sawRead = FALSE /\ dropIP = 0 /\ started = FALSE
        /\ wo = [InitW(FALSE, <<>>, <<>>, FALSE, "ok", NoPic) EXCEPT !.viol = <<>>] @@ [nhCfg |-> 0]
        /\ w = wo /\ pc = "Start" /\ queue = <<>> /\ cur = 0 /\ consumed = 0 /\ bstart = 0 /\ nchg = 0 /\ sched = <<>>

TNext ==
  /\ i < Len(Recs) /\ i' = i + 1
  /\ LET r == Recs[i + 1] IN
     /\ run' = IF r.e = "reset" THEN r.run ELSE run
     /\ wo' = IF r.e = "reset" THEN ST!FreshW(r) @@ [nhCfg |-> r.nh] ELSE ST!Step([wo EXCEPT !.viol = <<>>], r)
     /\ started' = IF r.e = "reset" THEN FALSE ELSE IF r.e = "hook" /\ r.h = "loop_start" THEN TRUE ELSE started
     /\ sawRead' = IF r.e = "read" THEN TRUE ELSE IF r.e \in {"quiescent", "reset"} \/ (r.e = "hook" /\ r.h \notin {"recv_dropped", "sel_command"}) THEN FALSE ELSE sawRead
     /\ dropIP' = IF r.e = "hook" /\ r.h = "recv_dropped" THEN r.in_progress ELSE IF (r.e = "hook" /\ r.h # "sel_command") \/ r.e \in {"quiescent", "reset"} THEN 0 ELSE dropIP
     /\ IF r.e = "reset" THEN
           /\ w' = wo' /\ pc' = "Start" /\ queue' = <<>> /\ cur' = 0 /\ consumed' = 0 /\ bstart' = 0 /\ nchg' = 0 /\ sched' = <<>> /\ drift' = FALSE
        ELSE IF r.e = "hook" THEN THookStep(r)
        ELSE IF r.e \in EnvRecs THEN TEnvStep(r)
        ELSE IF r.e = "quiescent" THEN TQuiescentStep
        ELSE KeepModel /\ UNCHANGED drift

TSpec == TInit /\ [][TNext]_<<vars, tvars>>
TAccepted == IF TLCGet("stats").diameter - 1 = Len(Recs) THEN TRUE
            ELSE PrintT(<<"UNMATCHED", TLCGet("stats").diameter, Len(Recs)>>) /\ FALSE
=============================================================================
