----------------------------- MODULE CodecTrace -----------------------------
\* Validation of the request encoder (C06, C07, framing part of C13) on bytes written by the REAL
\* Connection::send / send_list for commands built through the public builder API (`mpdv codec`).
\* The meaning of the bytes is what MPD's tokenizer (Tokenizer.tla) reads from them; no model of
\* escape_argument is used, so any output the server reads correctly is accepted.
EXTENDS Integers, Sequences, FiniteSets, TLC, Json, IOUtils, SequencesExt

T == INSTANCE Tokenizer
FG == INSTANCE FilterGrammar
Recs == ndJsonDeserialize(IOEnv.TRACE)
VARIABLE i
vars == <<i>>

\* ---- the builder's contract (C07)
NameCh(c) == (c >= 65 /\ c <= 90) \/ (c >= 97 /\ c <= 122) \/ (c >= 48 /\ c <= 57) \/ c = 95
CLBEGIN   == <<99,111,109,109,97,110,100,95,108,105,115,116,95,98,101,103,105,110>>
CLOKBEGIN == <<99,111,109,109,97,110,100,95,108,105,115,116,95,111,107,95,98,101,103,105,110>>
CLEND     == <<99,111,109,109,97,110,100,95,108,105,115,116,95,101,110,100>>
FramingWords == {CLBEGIN, CLOKBEGIN, CLEND}
ValidName(n) == n # <<>> /\ (\A k \in 1..Len(n) : NameCh(n[k])) /\ n \notin FramingWords
Has(s, b) == \E k \in 1..Len(s) : s[k] = b
NumLF(s) == Cardinality({k \in 1..Len(s) : s[k] = 10})
Body(wire) == SubSeq(wire, 1, Len(wire) - 1)          \* the line without its LF

\* ---- cause classification for C06 (per argument, from its solo rendering "x <arg>\n")
Classes(a) == {IF c = 34 THEN "dq" ELSE IF c = 39 THEN "sq" ELSE IF c = 92 THEN "bs" ELSE IF c = 0 THEN "nul"
               ELSE IF c = 32 \/ c = 9 THEN "blank" ELSE IF c < 32 THEN "ctl" ELSE "plain" : c \in {a[k] : k \in 1..Len(a)}}
              \cup (IF a = <<>> THEN {"empty"} ELSE {})
SoloOk(st) == st.solo # <<>> /\ LET t == T!Tokenize(Body(st.solo)) IN t.ok /\ t.args = <<st.v>>
SoloQuoted(st) == Len(st.solo) >= 3 /\ st.solo[3] = 34
\* F-C06-1: an argument without blank is sent unquoted although it contains " ' or \ (which are backslash-escaped,
\* but MPD's NextUnquoted does no unescaping and rejects quotes)
KnownCause(st) == ~SoloQuoted(st) /\ Classes(st.v) \cap {"dq", "sq", "bs"} # {} /\ Classes(st.v) \cap {"nul", "ctl", "blank", "empty"} = {}

CmdViols(r) ==
  IF r.not_utf8 THEN {} ELSE
  LET vname == ValidName(r.name) IN
  (IF ~vname /\ r.build_ok THEN {<<"C07", "command name outside MPD's command-word alphabet (or a list framing word) was accepted", "">>} ELSE {})
  \cup (IF ~r.build_ok THEN {} ELSE
    LET steps == r.steps
        acc == SelectSeq(steps, LAMBDA s : s.ok)
        accArgs == [k \in 1..Len(acc) |-> acc[k].v]
        allStr == \A k \in 1..Len(steps) : steps[k].is_str
        t == T!Tokenize(Body(r.wire))
        v1 == {<<"C07", "argument containing a line feed was accepted", "">> : k \in {j \in 1..Len(steps) : Has(steps[j].v, 10) /\ steps[j].ok}}
        v2 == {<<"C07", "a rejected argument changed the command", "">> : k \in {j \in 1..Len(steps) : ~steps[j].ok /\ (~steps[j].eq_prev \/ ~steps[j].same_wire)}}
        v3 == IF r.wire = <<>> \/ r.wire[Len(r.wire)] # 10 \/ NumLF(r.wire) # 1 THEN {<<"C07", "a command does not occupy exactly one LF-terminated line", "">>} ELSE {}
        v4 == IF t.ok /\ t.name \in FramingWords THEN {<<"C07", "the first word of a user command is a list framing word", "">>} ELSE {}
        c6ok == t.ok /\ t.name = r.name /\ t.args = accArgs
        failing == {k \in 1..Len(acc) : ~SoloOk(acc[k])}
        v5 == IF ~allStr \/ Len(acc) > 15 \/ c6ok THEN {}
              ELSE {<<"C06", "the server's tokenizer does not read back the command name and exactly the argument strings",
                      IF failing # {} /\ \A k \in failing : KnownCause(acc[k]) THEN "F-C06-1" ELSE "">>}
        \* both connection flavours put the same bytes on the wire, also over a transport that takes a few bytes per write
        v6 == IF r.wire_async_same THEN {} ELSE {<<"C06", "the async connection does not write the complete command line (short writes)", "">>,
                                                 <<"C07", "the async connection does not write the complete command line (short writes)", "">>}
    IN v1 \cup v2 \cup v3 \cup v4 \cup v5 \cup v6)

RECURSIVE CatL(_)
CatL(ss) == IF ss = <<>> THEN <<>> ELSE Head(ss) \o CatL(Tail(ss))
ListViols(r) ==
  IF r.n = 0 THEN {} ELSE
  LET exp == IF r.n = 1 THEN r.lines[1] ELSE CLOKBEGIN \o <<10>> \o CatL(r.lines) \o CLEND \o <<10>> IN
  (IF r.wire = exp THEN {} ELSE {<<"C13", "command list is not framed as command_list_ok_begin, the N command lines in order, command_list_end (or the bare command for N = 1)", "">>,
                                 <<"C07", "command list framing altered", "">>})
  \cup (IF r.wire_async_same THEN {} ELSE {<<"C13", "the async connection does not write the complete command list block (short writes)", "">>})
  \cup (IF r.len = r.n THEN {} ELSE {<<"C13", "CommandList::len disagrees with the number of commands", "">>})
  \cup (IF NumLF(r.wire) = (IF r.n = 1 THEN 1 ELSE r.n + 2) THEN {} ELSE {<<"C07", "command list does not consist of begin, N lines, end", "">>})

\* ---- filters (C11): layer 1 = request tokenizer, layer 2 = filter-expression grammar; the parsed expression must be
\* the mirror tree up to associativity of AND, tags compared case-insensitively, values byte for byte
RECURSIVE ValClasses(_)
ValClasses(e) == IF e.k = "tag" THEN Classes(e.v) ELSE IF e.k = "not" THEN ValClasses(e.e) ELSE UNION {ValClasses(e.es[k]) : k \in 1..Len(e.es)}
FilterViols(r) ==
  LET t == T!Tokenize(Body(r.wire)) IN
  IF ~t.ok \/ Len(t.args) < r.argpos
  THEN {<<"C11", "the command carrying the filter is not tokenized by the server into the expected arguments",
          IF ValClasses(r.tree) \cap {"dq", "bs"} # {} THEN "F-C11-1" ELSE "">>}
  ELSE LET f == FG!ParseFilter(t.args[r.argpos]) IN
       IF f.ok /\ FG!Norm(f.e, FALSE) = FG!Norm(r.tree, TRUE) THEN {}
       ELSE {<<"C11", "the filter expression the server parses is not the expression that was built",
               IF ValClasses(r.tree) \cap {"dq", "bs"} # {} THEN "F-C11-1" ELSE "">>}

\* ---- binding of the implementation-shaped encoder model (Encoder.tla, as coded) to the code: for every recorded case the model must
\* predict the builder's verdicts and the exact bytes.  A mismatch is DRIFT (the exhaustive EncoderMC result no longer describes this
\* code), printed as a note - never a verdict: a different but correct encoding must not raise an alarm.
E == INSTANCE Encoder WITH QuoteWhenEscaping <- FALSE, FilterEscapesBoth <- FALSE
N == INSTANCE Names
RECURSIVE EFold(_, _, _)
EFold(b, steps, k) == IF k > Len(steps) THEN b ELSE EFold(E!PAddStr(b, steps[k].v), steps, k + 1)
CmdDrift(r) ==
  \* (arguments longer than 200 bytes are left to the peer model: the model's byte-by-byte rendering is quadratic in TLC)
  IF r.not_utf8 \/ \E k \in 1..Len(r.steps) : (~r.steps[k].is_str \/ Len(r.steps[k].v) > 200) THEN {}
  ELSE LET b0 == E!PBuild(r.name) IN
       IF b0.built # r.build_ok THEN {"Command::build verdict"}
       ELSE IF ~r.build_ok THEN {}
       ELSE LET b == EFold(b0, r.steps, 1)
                acc == SelectSeq(r.steps, LAMBDA st : st.ok) IN
            (IF E!Line(b) = r.wire THEN {} ELSE {"bytes of the command line"})
            \cup (IF b.args = [k \in 1..Len(acc) |-> acc[k].v] THEN {} ELSE {"accepted / rejected arguments"})
RECURSIVE ETree(_)
RECURSIVE EFlat(_)
EFlat(es) == IF es = <<>> THEN <<>> ELSE LET h == ETree(Head(es)) IN (IF h.k = "and" THEN h.es ELSE <<h>>) \o EFlat(Tail(es))
ETree(t) == IF t.k = "tag" THEN [k |-> "tag", tag |-> N!Canonical(t.tag), opb |-> t.op, v |-> t.v]
            ELSE IF t.k = "not" THEN [k |-> "not", e |-> ETree(t.e)]
            ELSE [k |-> "and", es |-> EFlat(t.es)]          \* Filter::and flattens the operands of both sides
FilterPrefix(c) == IF c = "find" THEN <<102,105,110,100,32>> ELSE IF c = "list" THEN <<108,105,115,116,32,84,105,116,108,101,32>> ELSE <<99,111,117,110,116,32>>
FilterDrift(r) ==
  LET farg == E!RenderFilterArg(ETree(r.tree))
      pre == FilterPrefix(r.cmd) IN
  IF ~E!ArgValid(farg) THEN {}      \* (the typed commands panic on a rejected filter: recorded as "panic", judged elsewhere)
  ELSE IF Len(r.wire) >= Len(pre) + Len(farg) /\ SubSeq(r.wire, 1, Len(pre)) = pre /\ SubSeq(r.wire, Len(pre) + 1, Len(pre) + Len(farg)) = farg THEN {}
  ELSE {"bytes of the filter argument"}
Drift(r) == IF r.e = "cmd" THEN CmdDrift(r) ELSE IF r.e = "filter" THEN FilterDrift(r) ELSE {}
Bound(r) == (r.e = "cmd" /\ ~r.not_utf8 /\ \A k \in 1..Len(r.steps) : r.steps[k].is_str) \/ r.e = "filter"

Init == i = 0
Next == /\ i < Len(Recs) /\ i' = i + 1
        /\ LET r == Recs[i + 1] IN (IF Drift(r) # {} THEN PrintT(<<"DRIFT", r.id, i + 1, SetToSeq(Drift(r))>>) ELSE TRUE)
        /\ LET r == Recs[i + 1]
               vs == IF r.e = "cmd" THEN CmdViols(r) ELSE IF r.e = "list" THEN ListViols(r) ELSE IF r.e = "filter" THEN FilterViols(r)
                     ELSE IF r.e = "panic" THEN {<<"PANIC", "the command builder panicked", "">>} ELSE {} IN
           IF vs # {} THEN PrintT(<<"VIOL", r.id, i + 1, SetToSeq(vs)>>) ELSE TRUE
Spec == Init /\ [][Next]_vars
Accepted == IF TLCGet("stats").diameter - 1 = Len(Recs) THEN TRUE
            ELSE PrintT(<<"UNMATCHED", TLCGet("stats").diameter, Len(Recs)>>) /\ FALSE
=============================================================================
