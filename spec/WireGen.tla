------------------------------ MODULE WireGen ------------------------------
\* Stream sets for the wire properties, ENUMERATED BY TLC from abstract responses (so that for well-formed
\* streams the oracle is the encoder Encode of Wire.tla, independent of any decoder) and their mutations.
\* Used (a) as the Streams constant of Receive.tla (exhaustive over all segmentations), and
\* (b) printed as JSON cases that are replayed into the real Connection / AsyncConnection.
EXTENDS Wire, SequencesExt, Json, TLC, Randomization

\* ---- pools
Ka == <<97>>                 \* "a"
KB == <<65,45,98>>           \* "A-b"
Vals == { <<>>, <<98>>, <<79,75>>, <<108,105,115,116,95,79,75>>, <<65,67,75,32,91,49,64,48,93,32,123,125,32,120>>,
          <<98,105,110,97,114,121,58,32,51>>, <<195,169>>,           \* "", b, OK, list_OK, "ACK [1@0] {} x", "binary: 3", e-acute
          <<98,13>>, <<13>>, <<97,13,98>>, <<9,32>>, <<1,127>>, <<0>>, <<32,98,32>>, <<240,159,142,181>> }   \* CR at the end / alone / inside, TAB+blank, control bytes, NUL, blanks around, 4-byte UTF-8
ValsFew == { <<>>, <<79,75>>, <<195,169>>, <<98,13>> }
Pays == { <<>>, <<10>>, <<79,75,10>>, <<0,255>>, <<97,58,32,98,10>> }
Errs == { << <<53>>, <<48>>, <<>>, <<120>> >>,                                     \* ACK [5@0] {} x
          << <<53,48>>, <<49>>, <<112,108,97,121>>, <<110,111,32,115,117,99,104,32,115,111,110,103>> >>,   \* ACK [50@1] {play} no such song
          << U64MAX, <<48>>, <<97,95,98>>, <<>> >>,                                 \* max code, empty message
          << <<50>>, <<48>>, <<>>, <<79,75>> >> }                                   \* message "OK"
Fld1 == {<<k, v>> : k \in {Ka, KB}, v \in Vals}
Fld2 == {<<k, v>> : k \in {Ka}, v \in ValsFew}
FieldLists == {<<>>} \cup {<<f>> : f \in Fld1} \cup {<<f, g>> : f \in Fld1, g \in Fld2}
Frames == {[fields |-> fs, bin |-> b] : fs \in FieldLists, b \in {<<>>} \cup {<<p>> : p \in Pays}}
FramesFew == {[fields |-> fs, bin |-> b] : fs \in {<<>>, <<<<Ka, <<98>>>>>>, <<<<KB, <<79,75>>>>, <<Ka, <<>>>>>>}, b \in {<<>>, <<<<79,75,10>>>>}}

\* ---- abstract responses: [r |-> response, list |-> BOOLEAN]
SingleOk  == {[r |-> [frames |-> <<f>>, err |-> <<>>], list |-> FALSE] : f \in Frames}
SingleErr == {[r |-> [frames |-> <<>>, err |-> e], list |-> FALSE] : e \in Errs}
\* lists of up to 5 frames: every 3-frame combination (a payload in a frame that is not the first, followed by frames without
\* one, and the like), samples of longer ones
FrameSeqs == {<<>>} \cup {<<f>> : f \in FramesFew} \cup {<<f, g>> : f \in FramesFew, g \in FramesFew}
             \cup {<<f, g, h>> : f \in FramesFew, g \in FramesFew, h \in FramesFew}
             \cup RandomSubset(120, [1..4 -> FramesFew]) \cup RandomSubset(60, [1..5 -> FramesFew])
ListOk    == {[r |-> [frames |-> fs, err |-> <<>>], list |-> TRUE] : fs \in FrameSeqs \ {<<>>}}
ListErr   == {[r |-> [frames |-> fs, err |-> e], list |-> TRUE] : fs \in {x \in FrameSeqs : Len(x) <= 2} \cup RandomSubset(80, {x \in FrameSeqs : Len(x) > 2}),
                                                                        e \in {x \in Errs : x[3] # <<>>}}
\* errors preceded by partial output of the failing command (junk lines that belong to no frame)
Junks == {<<<<Ka, <<98>>>>>>, <<<<KB, <<79,75>>>>, <<Ka, <<>>>>>>}
JunkErr == {[r |-> [frames |-> <<>>, err |-> e], list |-> FALSE, junk |-> j] : e \in Errs, j \in Junks}
           \cup {[r |-> [frames |-> fs, err |-> e], list |-> TRUE, junk |-> j] : fs \in {<<>>} \cup {<<f>> : f \in FramesFew}, e \in {x \in Errs : x[3] # <<>>}, j \in Junks}
NoJunk(S) == {[r |-> a.r, list |-> a.list, junk |-> <<>>] : a \in S}
Responses == NoJunk(SingleOk \cup SingleErr \cup ListOk \cup ListErr) \cup JunkErr

Enc(a) == EncodeJ(a.r, a.list, a.junk)
\* a small, fixed selection for the exhaustive all-segmentations design check
Pick(S, n) == IF Cardinality(S) <= n THEN S ELSE RandomSubset(n, S)

\* ---- cases printed for the harness: one JSON object per abstract response sequence
CaseOf(seq) == [abs |-> seq, stream |-> Cat([k \in 1..Len(seq) |-> Enc(seq[k])])]
NPairs == 250
NTriples == 80
Seqs == {<<a>> : a \in Responses}
        \cup RandomSubset(NPairs, {<<a, b>> : a \in Responses, b \in Pick(Responses, 40)})
        \cup RandomSubset(NTriples, {<<a, b, c>> : a \in Pick(Responses, 30), b \in Pick(Responses, 30), c \in Pick(Responses, 30)})
=============================================================================
