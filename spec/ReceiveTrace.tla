---------------------------- MODULE ReceiveTrace ----------------------------
\* Hook-level binding of Receive.tla to the code.  With --cfg mpd_client_verif the real receive loops
\* (Connection::receive, AsyncConnection::receive) emit one event right before each read of the transport
\* (rx_wait: bytes kept in the buffer, length of the blocking buffer, "a frame is in progress") and one right after it
\* (rx_read: bytes read, bytes now in the buffer, buffer length after a possible doubling); `mpdv wire` adds one event per
\* returned call (rx_out).  Every recorded case is replayed through the SAME pure step operators the exhaustive model uses
\* (PParse / PRead / PEof, with the code's real initial buffer length Cap0 = 4096): each event must be explained by the
\* step it names and the logged numbers must be the model's, and at the end the model's outcomes must be the recorded ones.
\* A mismatch is model drift (printed as DRIFT, reported as a NOTE by the checks): the property verdicts come from
\* WireTrace.tla and do not depend on it; what it establishes is that the exhaustive results about Receive.tla are
\* results about this code's bookkeeping.
EXTENDS Receive, Json, IOUtils, SequencesExt

Recs == ndJsonDeserialize(IOEnv.TRACE)
TStreams == <<>>                       \* Streams <- TStreams (unused here)
TStreamOf(k) == Recs[k].stream         \* StreamOf <- TStreamOf: the stream of case k
VARIABLE i
tvars == <<vars, i>>

JResp(r) == [frames |-> [k \in 1..Len(r.frames) |-> [fields |-> r.frames[k].fields, bin |-> r.frames[k].bin]], err |-> r.err]
JOut(o) == [k \in 1..Len(o) |-> Out(o[k].t, JResp(o[k].resp))]

SameBuf(s, ev) == IF s.fl = "sync" THEN s.filled = ev.f /\ s.blen = ev.b ELSE Len(s.data) = ev.f
Emitted(s, n, t) == \/ Len(n.out) = Len(s.out) + 1 /\ n.out[Len(n.out)].t = t
                    \/ s.phase # "done" /\ n.phase = "done" /\ n.again = t
\* [s: final model state, at: 0 or the index of the first event the model does not explain]
RECURSIVE Run(_, _, _)
Run(s, evs, k) ==
  IF k > Len(evs) THEN [s |-> s, at |-> 0] ELSE
  LET ev == evs[k]  stop == [s |-> s, at |-> k] IN
  IF ev.e = "w" THEN                                       \* about to read: the parse phase found no complete response
     IF s.phase # "parse" THEN stop ELSE
     LET n == PParse(s) IN
     IF n.phase = "read" /\ ((n.bl.st # "init") = (ev.p = 1)) /\ SameBuf(n, ev) THEN Run(n, evs, k + 1) ELSE stop
  ELSE IF ev.e = "r" THEN                                  \* the read returned ev.n bytes
     IF s.phase # "read" THEN stop
     ELSE IF ev.n = 0 THEN (IF s.pos = Len(StreamOf(s.sid)) THEN Run(s, evs, k + 1) ELSE stop)    \* the Eof step is taken at the outcome event
     ELSE IF ev.n > Len(StreamOf(s.sid)) - s.pos \/ (s.fl = "sync" /\ ev.n > s.blen - s.filled) THEN stop
     ELSE LET n == PRead(s, ev.n) IN IF SameBuf(n, ev) THEN Run(n, evs, k + 1) ELSE stop
  ELSE                                                     \* "o": a receive call returned ev.t
     LET n == IF s.phase = "parse" THEN PParse(s)
              ELSE IF s.phase = "read" /\ s.pos = Len(StreamOf(s.sid)) THEN PEof(s) ELSE s IN
     IF Emitted(s, n, ev.t) THEN Run(n, evs, k + 1) ELSE stop

TInit == i = 0 /\ sid = 0 /\ fl = "" /\ pos = 0 /\ data = <<>> /\ bl = B0 /\ filled = 0 /\ blen = Cap0 /\ bcap = Cap0
         /\ out = <<>> /\ again = "" /\ phase = "" /\ nreads = 0
TNext == /\ i < Len(Recs)
         /\ i' = i + 1
         /\ LET r == Recs[i + 1]
                x == Run(St0(i + 1, r.flavour), r.ev, 1)
                okOut == x.at # 0 \/ (x.s.out = JOut(r.out) /\ (r.again \in {"", "skipped"} \/ x.s.again = r.again)) IN
            /\ Become(x.s)
            /\ IF x.at # 0 THEN PrintT(<<"DRIFT", r.id, i + 1, x.at, r.ev[x.at].e, x.s.phase, x.s.filled, x.s.blen, Len(x.s.data)>>)
               ELSE IF ~okOut THEN PrintT(<<"DRIFT", r.id, i + 1, 0, "outcomes", x.s.phase, x.s.filled, x.s.blen, Len(x.s.data)>>)
               ELSE TRUE
TSpec == TInit /\ [][TNext]_tvars
Accepted == IF TLCGet("stats").diameter - 1 = Len(Recs) THEN TRUE
            ELSE PrintT(<<"UNMATCHED", TLCGet("stats").diameter, Len(Recs)>>) /\ FALSE
=============================================================================
