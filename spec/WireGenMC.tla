----------------------------- MODULE WireGenMC -----------------------------
\* Generator: TLC enumerates abstract response sequences (WireGen.tla) and prints them with their encoding.
EXTENDS WireGen
VARIABLE x
GenInit == x \in Seqs
GenNext == UNCHANGED x
GenEmit == PrintT(<<"CASE", ToJson(CaseOf(x))>>)
=============================================================================
