------------------------------ MODULE NamesTrace ------------------------------
\* Validation of Tag and Subsystem (C20) on records produced by `mpdv names` from the real types: parsing of
\* candidate strings, and eq / cmp / hash / map behaviour of every pair of values (named variants, parsed values,
\* catch-alls holding a known name in any letter case).  Also the generator of the candidate strings.
EXTENDS Names, TLC, Json, IOUtils, SequencesExt
Recs == ndJsonDeserialize(IOEnv.TRACE)
VARIABLE i
vars == <<i>>

Viols(r) ==
  CASE r.e = "tag_parse" ->
         (IF r.panicked THEN {<<"C20", "parsing a tag string panicked", "">>} ELSE {})
         \cup (IF r.ok # ValidTagString(r.s) THEN {<<"C20", "tag string accepted / rejected against the rule: non-empty, only [A-Za-z_-]", "">>} ELSE {})
         \cup (IF r.ok /\ ValidTagString(r.s) /\ r.name # Canonical(r.s) THEN {<<"C20", "parsed tag does not carry the canonical (known, case-insensitive) or verbatim protocol name", "">>} ELSE {})
         \cup (IF r.ok /\ ~r.rt_eq THEN {<<"C20", "parsing a tag's own protocol name does not give back an equal tag", "">>} ELSE {})
    [] r.e = "tag_pair" ->
         LET same == r.a = r.b IN
         (IF r.eq # same \/ r.str_eq # same THEN {<<"C20", "tag equality (with a tag or with a string) is not equality of protocol names", "">>} ELSE {})
         \cup (IF r.cmp # LexCmp(r.a, r.b) \/ ~r.pcmp_same THEN {<<"C20", "tag order is not the order of protocol names", "">>} ELSE {})
         \cup (IF same /\ ~r.hash_eq THEN {<<"C20", "equal tags hash differently", "">>} ELSE {})
         \cup (IF r.map_hit # same \/ r.btree_hit # same \/ r.set_len # (IF same THEN 1 ELSE 2)
               THEN {<<"C20", "named variant and catch-all of the same name are not interchangeable in maps / sets", "">>} ELSE {})
    [] r.e = "sub_pair" ->
         LET same == r.a = r.b IN
         (IF r.eq # same THEN {<<"C20", "subsystem equality is not equality of protocol names", "">>} ELSE {})
         \cup (IF same /\ ~r.hash_eq THEN {<<"C20", "equal subsystems hash differently", "">>} ELSE {})
         \cup (IF r.map_hit # same \/ r.set_len # (IF same THEN 1 ELSE 2) THEN {<<"C20", "subsystem variant and catch-all of the same name are not interchangeable in maps / sets", "">>} ELSE {})
    [] r.e = "variants" ->
         (IF KnownTags \subseteq {r.tags[k] : k \in 1..Len(r.tags)} THEN {} ELSE {<<"C20", "a documented tag has no named variant carrying its protocol name", "">>})
         \cup (IF KnownSubsystems \subseteq {r.subs[k] : k \in 1..Len(r.subs)} THEN {} ELSE {<<"C20", "a documented subsystem has no named variant carrying its protocol name", "">>})
    [] OTHER -> {}

Init == i = 0
Next == /\ i < Len(Recs) /\ i' = i + 1
        /\ LET r == Recs[i + 1]  vs == Viols(r) IN
           IF vs # {} THEN PrintT(<<"VIOL", r.id, i + 1, SetToSeq(vs)>>) ELSE TRUE
Spec == Init /\ [][Next]_vars
Accepted == IF TLCGet("stats").diameter - 1 = Len(Recs) THEN TRUE
            ELSE PrintT(<<"UNMATCHED", TLCGet("stats").diameter, Len(Recs)>>) /\ FALSE

=============================================================================
