------------------------------ MODULE FrameGen ------------------------------
\* Generator: TLC explores the abstract frame under all operations (every operation sequence of bounded length
\* on every small frame; states merge) and prints one witness operation path PER EXPLORED TRANSITION
\* (VIEW hides the history variable) - each becomes an implementation test of the real Frame.
EXTENDS Frame, Json, TLC
CONSTANTS MaxFields, MaxOps

KA == <<97>>
KAA == <<65>>
KB == <<98>>
Keys == {KA, KAA, KB}
Val(i) == <<118, 48 + i>>
PAY == <<112, 10, 0>>
FieldSeqs == UNION {[1..n -> Keys] : n \in 0..MaxFields}
\* dup: neighbouring positions carry the SAME value, so that lines identical in key and value occur next to each other
\* (a server may well send `file: a` twice); otherwise every position has its own value, which tells WHICH match was taken
Frames0 == {[fields |-> [i \in 1..Len(ks) |-> <<ks[i], Val(IF dup THEN (i + 1) \div 2 ELSE i)>>], bin |-> b] :
              ks \in FieldSeqs, b \in {None, Some(PAY)}, dup \in BOOLEAN}
IterMoves == {<<"f","f","f","f","f">>, <<"b","b","b","b","b">>, <<"f","b","f","b","f">>, <<"b","f","f","b","b">>, <<"f","f","b","b","f">>,
              <<"l">>, <<"f","l">>, <<"n1","b","l">>, <<"n2","f">>}      \* positional access (nth) and last(), which consumes the iterator
Ops == {[op |-> o, k |-> k, moves |-> <<>>] : o \in {"find", "get"}, k \in Keys}
       \cup {[op |-> o, k |-> <<>>, moves |-> <<>>] : o \in {"take_binary", "fields_len", "is_empty", "has_binary", "binary"}}
       \cup {[op |-> "iter", k |-> <<>>, moves |-> m] : m \in IterMoves}

VARIABLES f0, live, bin, hist
view == <<f0, live, bin, Len(hist)>>
Init == /\ f0 \in Frames0 /\ live = f0.fields /\ bin = f0.bin /\ hist = <<>>
Next == /\ Len(hist) < MaxOps
        /\ \E o \in Ops : LET r == Apply(live, bin, o) IN
             /\ live' = r.live /\ bin' = r.bin /\ hist' = Append(hist, o) /\ UNCHANGED f0
Emit == PrintT(<<"CASE", ToJson([frame |-> f0, ops |-> hist'])>>)
=============================================================================
