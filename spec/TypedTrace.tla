------------------------------ MODULE TypedTrace ------------------------------
\* Validation of typed response conversion (C12 C14 C16, pairing part of C13): every record is a reply pushed
\* through the REAL parser and converted by the REAL Command::response / CommandList::responses (`mpdv typed`),
\* with the projected typed value.  TLC computes what the reply means with Typed.tla and compares.
EXTENDS Typed, TLC, Json, IOUtils, SequencesExt

\* what the overridden iterator adaptors of the list value iterators (borrowed and owning) must yield for the value sequence vs
ListAdaptors(vs) == LET n == Len(vs)
                        LOpt(k) == IF k >= 1 /\ k <= n THEN <<vs[k]>> ELSE <<>>
                        LRev == [k \in 1..n |-> vs[n - k + 1]]
                        \* front, back, front, back ... until exhausted
                        LMixed == [k \in 1..n |-> IF k % 2 = 1 THEN vs[(k + 1) \div 2] ELSE vs[n - (k \div 2) + 1]] IN
   [len |-> n, count |-> n, last |-> LOpt(n), nth1 |-> LOpt(2), nthb1 |-> LOpt(n - 1),
    o_len |-> n, o_count |-> n, o_last |-> LOpt(n), o_nth1 |-> LOpt(2), o_nthb1 |-> LOpt(n - 1), o_back |-> LRev, mixed |-> LMixed,
    len_after_next |-> IF n = 0 THEN 0 ELSE n - 1, ref_iter |-> vs]
N == INSTANCE Names
Recs == ndJsonDeserialize(IOEnv.TRACE)
Chrono == IOEnv.CHRONO = "1"
VARIABLE i
vars == <<i>>

ListingCmds == {"Queue", "QueueRange", "Find", "GetPlaylist", "ListAllIn", "CurrentSong"}
QueueCmds == {"Queue", "QueueRange", "CurrentSong"}

\* ---- comparison of projected values with expected ones
OptDurEq(j, e) == IF e = None THEN j = <<>> ELSE j # <<>> /\ SameDur(j[1], e[1])
RangeEq(j, e) == IF e = None THEN j = <<>>
                 ELSE j # <<>> /\ SameDur(j[1][1], e[1][1]) /\ OptDurEq(j[1][2], e[1][2])
\* tags: the typed value keys them by Tag, i.e. by canonical protocol name; values of all spellings in wire order
CanonTags(attrsTags, attrs) ==
  LET names == {N!Canonical(t[1]) : t \in attrsTags} IN
  {<<nm, LET S == {a \in 1..Len(attrs) : N!Canonical(attrs[a][1]) = nm /\ \E t \in attrsTags : t[1] = attrs[a][1]} IN
         [x \in 1..Cardinality(S) |-> attrs[CHOOSE a \in S : Cardinality({y \in S : y < a}) = x - 1][2]]>> : nm \in names}
SongEq(j, e, inq, attrs) ==
  /\ j.url = e.url /\ OptDurEq(j.dur, e.dur) /\ j.format = e.format /\ j.lm = e.lm
  /\ {<<j.tags[k][1], j.tags[k][2]>> : k \in 1..Len(j.tags)} = CanonTags(e.tags, attrs)
  /\ (inq => j.inq /\ j.pos = e.pos /\ j.id = e.id /\ j.prio = ValOf(e.prio, 0) /\ RangeEq(j.range, e.range))

ListingAttrs(fields) == LET es == SelectSeq(Entries(fields, 1, <<>>), LAMBDA x : x[1] = K_file) IN [k \in 1..Len(es) |-> es[k][3]]
ListingEq(r, exp) ==
  LET js == r.val.songs  attrs == ListingAttrs(r.fields) IN
  /\ Len(js) = Len(exp)
  /\ \A k \in 1..Len(exp) : SongEq(js[k], exp[k], r.cmd \in QueueCmds, attrs[k])

StatusEq(j, e) ==
  /\ j.volume = e.volume /\ N!LowerS(<<>>) = <<>>
  /\ j.repeat = e.repeat /\ j.random = e.random /\ j.consume = e.consume
  /\ j.plver = e.plver /\ j.pllen = e.pllen /\ j.cur = e.cur /\ j.next = e.next
  /\ OptDurEq(j.elapsed, e.elapsed) /\ OptDurEq(j.duration, e.duration) /\ j.bitrate = e.bitrate
  /\ SameDur(j.xfade, e.xfade) /\ j.update_job = e.update_job /\ j.error = e.error /\ j.partition = e.partition

\* string-valued enum fields are projected as TLA strings by the JSON reader; compare through a table
StateStr(b) == IF b = PLAY THEN "play" ELSE IF b = STOP THEN "stop" ELSE "pause"
SingleStr(b) == IF b = <<48>> THEN "0" ELSE IF b = <<49>> THEN "1" ELSE "oneshot"
RgStr(b) == IF b = <<111,102,102>> THEN "off" ELSE IF b = <<116,114,97,99,107>> THEN "track" ELSE IF b = <<97,108,98,117,109>> THEN "album" ELSE "auto"

Expected(r) ==
  LET c == r.cmd  f == r.fields IN
  IF c \in ListingCmds THEN
       (LET l == Listing(f, Chrono) IN
        IF c = "CurrentSong" /\ l.st = "ok" /\ Len(l.val) > 1 THEN Unspec ELSE l)
  ELSE CASE c = "Status" -> Status(f)
    [] c = "Stats" -> Stats(f)
    [] c = "Count" -> CountPlain(f)
    [] c = "CountGrouped" -> CountGrouped(f, r.p.tags[1])
    [] c = "List" -> ListReply(f, r.p.tags[1], <<>>)
    [] c = "ListGroup1" -> ListReply(f, r.p.tags[1], <<r.p.tags[2]>>)
    [] c = "ListGroup2" -> ListReply(f, r.p.tags[1], <<r.p.tags[2], r.p.tags[3]>>)
    [] c = "GetPlaylists" -> Playlists(f, Chrono)
    [] c = "StickerGet" -> StickerGet(f)
    [] c = "StickerList" -> StickerList(f)
    [] c = "StickerFind" -> StickerFind(f)
    [] c = "ListChannels" -> Channels(f)
    [] c = "ReadChannelMessages" -> Messages(f)
    [] c = "GetEnabledTagTypes" -> (IF \E k \in 1..Len(f) : f[k][1] # K_tagtype THEN Unspec
                                    ELSE IF \E k \in 1..Len(f) : ~N!ValidTagString(f[k][2]) THEN Err
                                    ELSE Ok([k \in 1..Len(f) |-> N!Canonical(f[k][2])]))
    [] c \in {"Update", "Rescan"} -> OneNum(f, K_updating_db)
    [] c = "Add" -> OneNum(f, K_Id)
    [] c = "ReplayGainStatus" -> RgStatus(f)
    [] c \in {"AlbumArt", "AlbumArtEmbedded"} -> Art(f, r.bin)
    [] OTHER -> Ok(<<>>)          \* commands whose reply carries nothing: any reply converts to ()

ValueEq(r, e) ==
  LET c == r.cmd  v == r.val IN
  IF c \in ListingCmds THEN ListingEq(r, e)
  ELSE CASE c = "Status" -> StatusEq(v, e) /\ v.state = StateStr(e.state) /\ v.single = SingleStr(e.single)
    [] c = "Stats" -> v.artists = e.artists /\ v.albums = e.albums /\ v.songs = e.songs /\ v.db_update = e.db_update
                      /\ SameDur(v.uptime, e.uptime) /\ SameDur(v.playtime, e.playtime) /\ SameDur(v.db_playtime, e.db_playtime)
    [] c = "Count" -> v.songs = e.songs /\ SameDur(v.playtime, e.playtime)
    [] c = "CountGrouped" -> Len(v.groups) = Len(e) /\ \A k \in 1..Len(e) : v.groups[k][1] = e[k][1] /\ v.groups[k][2] = e[k][2] /\ SameDur(v.groups[k][3], e[k][3])
    [] c = "List" -> v.values = e.values /\ v.owned = e.values /\ v.back = [k \in 1..Len(e.values) |-> e.values[Len(e.values) - k + 1]]
                     /\ v.raw = [k \in 1..Len(e.raw) |-> <<N!Canonical(e.raw[k][1]), e.raw[k][2]>>]
                     /\ v.grouped = [k \in 1..Len(e.grouped) |-> <<e.grouped[k][1], <<>>>>]
                     /\ v.ad = ListAdaptors(e.values)
    [] c \in {"ListGroup1", "ListGroup2"} -> v.grouped = e.grouped /\ v.raw = [k \in 1..Len(e.raw) |-> <<N!Canonical(e.raw[k][1]), e.raw[k][2]>>]
    [] c = "GetPlaylists" -> v.playlists = e
    [] c = "StickerGet" -> v.value = e /\ v.into = e
    [] c \in {"StickerList", "StickerFind"} -> {<<v.map[k][1], v.map[k][2]>> : k \in 1..Len(v.map)} = e /\ Len(v.map) = Cardinality(e)
    [] c = "ListChannels" -> v.items = e
    [] c = "ReadChannelMessages" -> v.pairs = e
    [] c = "GetEnabledTagTypes" -> v.items = e
    [] c \in {"Update", "Rescan", "Add"} -> v.n = e
    [] c = "ReplayGainStatus" -> v.mode = RgStr(e)
    [] c \in {"AlbumArt", "AlbumArtEmbedded"} -> IF ~e.some THEN ~v.some ELSE v.some /\ v.size = e.size /\ v.mime = e.mime /\ v.data = e.data
    [] OTHER -> TRUE

PropOf(c) == IF c \in ListingCmds THEN "C14" ELSE "C16"

\* certainly well-formed field lines: a name of letters, `_`, `-` (not `binary`, which starts a payload header), a value without LF
\* (values of the generated cases are valid UTF-8 by construction)
NameChT(c) == (c >= 65 /\ c <= 90) \/ (c >= 97 /\ c <= 122) \/ c = 95 \/ c = 45
WireValid(fields) == \A j \in 1..Len(fields) :
                       /\ fields[j][1] # <<>> /\ fields[j][1] # <<98,105,110,97,114,121>>
                       /\ \A k \in 1..Len(fields[j][1]) : NameChT(fields[j][1][k])
                       /\ \A k \in 1..Len(fields[j][2]) : fields[j][2][k] # 10
TypedViols(r) ==
  \* the protocol layer refused the lines: fine for lines that are not well-formed, a defect for well-formed ones
  IF r.out = "unparsed" THEN (IF WireValid(r.fields) THEN {<<PropOf(r.cmd), "well-formed reply lines were rejected before they reached the typed layer", r.cmd>>} ELSE {})
  ELSE IF r.out = "unknown_cmd" THEN {<<"HARNESS", "typed driver does not know the command", "">>}
  ELSE IF r.out = "panic" THEN {<<"C12", "typed conversion (or reading the converted value) panicked", r.cmd>>}
  ELSE LET e == Expected(r) IN
       IF e.st = "any" THEN {}
       ELSE IF e.st = "err" THEN (IF r.out = "err" THEN {} ELSE {<<"C16", "a value outside its field's domain did not produce an error", r.cmd>>} \cup
                                                            (IF r.cmd \in ListingCmds THEN {<<"C14", "a value outside its attribute's domain did not produce an error", r.cmd>>} ELSE {}))
       ELSE IF r.out # "ok" THEN {<<PropOf(r.cmd), "a well-formed reply was rejected by the typed conversion", r.cmd>>}
       ELSE IF ValueEq(r, e.val) THEN {}
       ELSE {<<PropOf(r.cmd), "the typed value does not carry exactly what the server sent", r.cmd>>}

\* ---- typed command lists: position k holds kind k % 4 (sticker get / update / add / channels); vec: sticker get only
\* shape "arts": binary-bearing commands inside a list (kind 5 = album art from either source)
ArtsKinds == <<1, 5, 5, 5, 2, 5, 1, 5>>
PosExpected(shape, k, fr) ==
  LET kind == IF shape = "vec" THEN 1 ELSE IF shape = "arts" THEN ArtsKinds[k] ELSE ((k - 1) % 4) + 1 IN
  CASE kind = 5 -> (LET x == Art(fr.fields, fr.bin) IN [st |-> x.st, val |-> <<"art", x.val>>])
    [] kind = 1 -> (LET x == StickerGet(fr.fields) IN [st |-> x.st, val |-> <<"sticker", x.val>>])
    [] kind = 2 -> (LET x == OneNum(fr.fields, K_updating_db) IN [st |-> x.st, val |-> <<"update", x.val>>])
    [] kind = 3 -> (LET x == OneNum(fr.fields, K_Id) IN [st |-> x.st, val |-> <<"add", x.val>>])
    [] OTHER -> (LET x == Channels(fr.fields) IN [st |-> x.st, val |-> <<"channels", x.val>>])
ItemEq(v, e) == IF e[1] = "art" THEN v[1] = "art" /\ (IF ~e[2].some THEN ~v[2].some
                                                       ELSE v[2].some /\ v[2].size = e[2].size /\ v[2].mime = e[2].mime /\ v[2].data = e[2].data)
                ELSE v = e
ListViols(r) ==
  IF r.out = "panic" THEN {<<"C12", "typed command list conversion panicked", r.shape>>}
  ELSE IF r.nframes # r.arity THEN {}                       \* frame count mismatch: only totality (C12) is demanded
  ELSE LET exps == [k \in 1..r.arity |-> PosExpected(r.shape, k, r.frames[k])] IN
       IF \E k \in 1..r.arity : exps[k].st # "ok" THEN {}
       ELSE IF r.out # "ok" THEN {<<"C13", "a typed list of well-formed frames was rejected", r.shape>>}
       ELSE IF \A k \in 1..r.arity : ItemEq(r.val.items[k], exps[k].val) THEN
               (IF r.shape = "vec" /\ r.arity = 0 /\ r.val.wire_some THEN {<<"C13", "an empty typed list would write a request", r.shape>>} ELSE {})
       ELSE {<<"C13", "the i-th typed response is not decoded from the frame of the i-th command", r.shape>>}

Init == i = 0
Next == /\ i < Len(Recs) /\ i' = i + 1
        /\ LET r == Recs[i + 1]
               vs == IF r.e = "typed" THEN TypedViols(r) ELSE IF r.e = "typed_list" THEN ListViols(r) ELSE {} IN
           IF vs # {} THEN PrintT(<<"VIOL", r.id, i + 1, SetToSeq(vs)>>) ELSE TRUE
Spec == Init /\ [][Next]_vars
Accepted == IF TLCGet("stats").diameter - 1 = Len(Recs) THEN TRUE
            ELSE PrintT(<<"UNMATCHED", TLCGet("stats").diameter, Len(Recs)>>) /\ FALSE
=============================================================================
