------------------------------ MODULE CmdsTrace ------------------------------
\* Validation of the predefined commands (C15): the bytes written for a command constructed through its
\* public constructor / builder path (`mpdv cmds`) are tokenized by the model of MPD's tokenizer and compared
\* with the row of Commands.tla: documented command word, and arguments that DENOTE the same values
\* (ranges as position sets with saturation at the integer maximum, durations within millisecond rounding,
\* clamped volume, whole-second crossfade, every string parameter exactly one token in its position).
EXTENDS Commands, FiniteSets, TLC, Json, IOUtils, SequencesExt

T == INSTANCE Tokenizer
FG == INSTANCE FilterGrammar
Recs == ndJsonDeserialize(IOEnv.TRACE)
VARIABLE i
vars == <<i>>

\* ---- decimal digit strings (64-bit values do not fit TLC integers)
U64MAX == <<49,56,52,52,54,55,52,52,48,55,51,55,48,57,53,53,49,54,49,53>>
IsDigits(d) == d # <<>> /\ \A k \in 1..Len(d) : d[k] >= 48 /\ d[k] <= 57
RECURSIVE StripZ(_)
StripZ(d) == IF Len(d) > 1 /\ d[1] = 48 THEN StripZ(Tail(d)) ELSE d
RECURSIVE LexLt(_, _)
LexLt(a, b) == IF a = <<>> THEN FALSE ELSE IF a[1] # b[1] THEN a[1] < b[1] ELSE LexLt(Tail(a), Tail(b))
DecLt(a0, b0) == LET a == StripZ(a0)  b == StripZ(b0) IN IF Len(a) # Len(b) THEN Len(a) < Len(b) ELSE LexLt(a, b)
RECURSIVE SuccR(_)
SuccR(d) == IF d = <<>> THEN <<49>>                         \* reversed digits
            ELSE IF Head(d) < 57 THEN <<Head(d) + 1>> \o Tail(d) ELSE <<48>> \o SuccR(Tail(d))
Rev(s) == [k \in 1..Len(s) |-> s[Len(s) - k + 1]]
DecSucc(d) == Rev(SuccR(Rev(StripZ(d))))
SatSucc(d) == IF StripZ(d) = U64MAX THEN U64MAX ELSE DecSucc(d)
RECURSIVE ValOf(_, _)
ValOf(d, acc) == IF d = <<>> THEN acc ELSE ValOf(Tail(d), acc * 10 + (d[1] - 48))
Small(d) == IF Len(StripZ(d)) > 8 THEN 99999999 ELSE ValOf(StripZ(d), 0)
Lower(c) == IF c >= 65 /\ c <= 90 THEN c + 32 ELSE c
LowerS(s) == [k \in 1..Len(s) |-> Lower(s[k])]
IndexOf(s, b) == LET S == {k \in 1..Len(s) : s[k] = b} IN IF S = {} THEN 0 ELSE CHOOSE k \in S : \A j \in S : k <= j

\* ---- argument meanings
NumTok(tok, d) == IsDigits(tok) /\ StripZ(tok) = StripZ(d)
SignedTok(tok, sign, d) == tok # <<>> /\ tok[1] = sign /\ NumTok(Tail(tok), d)

\* range: expected [a, b) from the Rust bounds, token "a:b" / "a:"
RangeExp(p) == [a |-> IF p.lok = "inc" THEN p.lod ELSE IF p.lok = "exc" THEN SatSucc(p.lod) ELSE <<48>>,
                open |-> p.hik = "unb",
                b |-> IF p.hik = "exc" THEN p.hid ELSE IF p.hik = "inc" THEN SatSucc(p.hid) ELSE <<>>]
EmptyR(r) == ~r.open /\ ~DecLt(r.a, r.b)
RangeTok(tok, e) ==
  LET c == IndexOf(tok, 58) IN
  /\ c > 1
  /\ LET ta == SubSeq(tok, 1, c - 1)  tb == SubSeq(tok, c + 1, Len(tok)) IN
     /\ IsDigits(ta) /\ (tb = <<>> \/ IsDigits(tb))
     /\ LET t == [a |-> ta, open |-> tb = <<>>, b |-> tb] IN
        \/ (EmptyR(e) /\ EmptyR(t))
        \/ (StripZ(t.a) = StripZ(e.a) /\ t.open = e.open /\ (e.open \/ StripZ(t.b) = StripZ(e.b)))

\* time: "S", "S.m", "S.mm", "S.mmm" within 0.5 ms (+ f64 fuzz) of secs + nanos
TimeTok(tok, p) ==
  LET c == IndexOf(tok, 46)
      si == IF c = 0 THEN tok ELSE SubSeq(tok, 1, c - 1)
      fr == IF c = 0 THEN <<>> ELSE SubSeq(tok, c + 1, Len(tok)) IN
  /\ IsDigits(si) /\ (c = 0 \/ (IsDigits(fr) /\ Len(fr) <= 3))
  /\ LET ms == IF fr = <<>> THEN 0 ELSE ValOf(fr, 0) * (IF Len(fr) = 1 THEN 100 ELSE IF Len(fr) = 2 THEN 10 ELSE 1)
         ms0 == p.nanos \div 1000000
         r == p.nanos % 1000000
         down == r <= 501000 /\ StripZ(si) = StripZ(p.secsd) /\ ms = ms0
         up == r >= 499000 /\ (IF ms0 + 1 < 1000 THEN StripZ(si) = StripZ(p.secsd) /\ ms = ms0 + 1
                                ELSE StripZ(si) = DecSucc(p.secsd) /\ ms = 0) IN
     down \/ up

Single(e) == IF e = 0 THEN <<48>> ELSE IF e = 1 THEN <<49>> ELSE <<111,110,101,115,104,111,116>>
Rgm(e) == IF e = 0 THEN <<111,102,102>> ELSE IF e = 1 THEN <<116,114,97,99,107>> ELSE IF e = 2 THEN <<97,108,98,117,109>> ELSE <<97,117,116,111>>
Min2(a, b) == IF a < b THEN a ELSE b

\* does token tok carry the meaning m (a pair <<kind, data>>) for parameter record p?
Means(m, tok, p) ==
  LET k == m[1] IN
  CASE k = "S1" -> tok = p.s1  [] k = "S2" -> tok = p.s2  [] k = "S3" -> tok = p.s3
    [] k = "N1" -> NumTok(tok, p.n1d)  [] k = "N2" -> NumTok(tok, p.n2d)
    [] k = "+N1" -> SignedTok(tok, 43, p.n1d)  [] k = "-N1" -> SignedTok(tok, 45, p.n1d)
    [] k = "+N2" -> SignedTok(tok, 43, p.n2d)  [] k = "-N2" -> SignedTok(tok, 45, p.n2d)
    [] k = "B" -> tok = (IF p.b THEN <<49>> ELSE <<48>>)
    [] k = "KW" -> tok = m[2]
    [] k = "R" -> RangeTok(tok, RangeExp(p))
    [] k = "POS1" -> RangeTok(tok, [a |-> p.n1d, open |-> FALSE, b |-> SatSucc(p.n1d)])
    [] k = "T" -> TimeTok(tok, p)
    [] k = "+T" -> tok # <<>> /\ tok[1] = 43 /\ TimeTok(Tail(tok), p)
    [] k = "-T" -> tok # <<>> /\ tok[1] = 45 /\ TimeTok(Tail(tok), p)
    [] k = "XF" -> NumTok(tok, p.secsd)
    [] k = "VOL" -> IsDigits(tok) /\ Small(tok) = Min2(Small(p.n1d), 100)
    [] k = "SINGLE" -> tok = Single(p.e)
    [] k = "RGM" -> tok = Rgm(p.e)
    [] k = "F" -> LET f == FG!ParseFilter(tok) IN f.ok /\ FG!Norm(f.e, FALSE) = FG!Norm(p.filter, TRUE)
    [] k = "TAG0" -> LowerS(tok) = LowerS(p.tags[1])
    [] k = "TAG1" -> LowerS(tok) = LowerS(p.tags[2])
    [] k = "TAG2" -> LowerS(tok) = LowerS(p.tags[3])
    [] OTHER -> FALSE

RECURSIVE Match(_, _, _)
Match(specs, toks, p) ==
  IF specs = <<>> THEN toks = <<>>
  ELSE IF Head(specs)[1] = "TAGS" THEN
       LET n == Len(p.tags) IN
       /\ Len(toks) >= n /\ \A k \in 1..n : LowerS(toks[k]) = LowerS(p.tags[k])
       /\ Match(Tail(specs), SubSeq(toks, n + 1, Len(toks)), p)
  ELSE IF Head(specs)[1] = "S1OPT" THEN
       \/ (p.s1 = <<>> /\ Match(Tail(specs), toks, p))
       \/ (toks # <<>> /\ Head(toks) = p.s1 /\ Match(Tail(specs), Tail(toks), p))
  ELSE toks # <<>> /\ Means(Head(specs), Head(toks), p) /\ Match(Tail(specs), Tail(toks), p)

Viols(r) ==
  IF r.e = "unknown_ctor" THEN {<<"HARNESS", "dispatcher does not know a constructor of the table", "">>}
  ELSE IF r.e # "pcmd" THEN {}
  ELSE IF r.ctor \notin Known THEN {<<"HARNESS", "no row in Commands.tla for this constructor", "">>}
  ELSE IF r.panicked THEN {<<"C15", "constructing or rendering the command panicked", "">>}
  ELSE IF r.wire = <<>> \/ r.wire[Len(r.wire)] # 10 THEN {<<"C15", "request is not one LF-terminated line", "">>}
  \* (a user may pass more values than MPD's 15-argument limit admits, e.g. 20 tags to `tagtypes enable`: the server will refuse
  \*  that request, but what is judged here is that every value is written, in order, in its documented form)
  ELSE LET t == T!TokenizeAll(SubSeq(r.wire, 1, Len(r.wire) - 1))  row == Row(r.ctor) IN
       IF ~t.ok THEN {<<"C15", "the server cannot tokenize the request", "">>}
       ELSE IF t.name # row.word THEN {<<"C15", "request does not use the documented command word", "">>}
       ELSE IF ~Match(row.args, t.args, r.p) THEN {<<"C15", "arguments do not denote the documented values for these parameters", "">>}
       ELSE {}

Init == i = 0
Next == /\ i < Len(Recs) /\ i' = i + 1
        /\ LET r == Recs[i + 1]  vs == Viols(r) IN
           IF vs # {} THEN PrintT(<<"VIOL", r.id, i + 1, SetToSeq(vs)>>) ELSE TRUE
Spec == Init /\ [][Next]_vars
Accepted == IF TLCGet("stats").diameter - 1 = Len(Recs) THEN TRUE
            ELSE PrintT(<<"UNMATCHED", TLCGet("stats").diameter, Len(Recs)>>) /\ FALSE
=============================================================================
