---------------------------- MODULE SessionTrace ----------------------------
\* Trace validation (implementation -> specification) for the session properties.
\* Reads an ndjson trace recorded by `mpdv session` from the REAL mpd_client::Client driven over
\* the mock transport, replays every record through the pure world operators of World.tla and
\* evaluates every monitor at every step.  Violations do not stop the run: they are printed as
\*   <<"VIOL", run, line, <<property, message, signature>>>>
\* "HARNESS" violations mean that the Rust simulator and the server model of the specification
\* disagree (tool error, exit 2), never a property verdict.
EXTENDS World, Bytes, Json, IOUtils

T == INSTANCE Tokenizer

Recs == ndJsonDeserialize(IOEnv.TRACE)

VARIABLES i, run, w
vars == <<i, run, w>>

IDLE   == <<105,100,108,101>>
NOIDLE == <<110,111,105,100,108,101>>
BEGIN  == <<99,111,109,109,97,110,100,95,108,105,115,116,95,111,107,95,98,101,103,105,110>>
END    == <<99,111,109,109,97,110,100,95,108,105,115,116,95,101,110,100>>
FAILW  == <<102,97,105,108>>

IsDigits(s) == s # <<>> /\ \A k \in 1..Len(s) : s[k] >= 48 /\ s[k] <= 57
RECURSIVE NumOfR(_, _)
NumOfR(s, acc) == IF s = <<>> THEN acc ELSE NumOfR(Tail(s), acc * 10 + (Head(s) - 48))
NumOf(s) == IF IsDigits(s) /\ Len(s) <= 9 THEN NumOfR(s, 0) ELSE 0
PadOf(args) == LET S == {k \in 2..Len(args) : Len(args[k]) >= 2 /\ args[k][1] = 112 /\ IsDigits(Tail(args[k]))} IN
               IF S = {} THEN 0 ELSE NumOf(Tail(args[CHOOSE k \in S : TRUE]))

Classify(l) ==
  LET t == T!Tokenize(l) IN
  IF ~t.ok THEN CL("bad", <<>>, FALSE, 0)
  ELSE IF t.name = IDLE /\ t.args = <<>> THEN CL("idle", <<>>, FALSE, 0)
  ELSE IF t.name = NOIDLE /\ t.args = <<>> THEN CL("noidle", <<>>, FALSE, 0)
  ELSE IF t.name = BEGIN /\ t.args = <<>> THEN CL("begin", <<>>, FALSE, 0)
  ELSE IF t.name = END /\ t.args = <<>> THEN CL("end", <<>>, FALSE, 0)
  ELSE IF t.name = PASSWORD /\ Len(t.args) = 1 THEN CL("password", t.args[1], FALSE, 0)
  ELSE IF t.name = REQ /\ Len(t.args) >= 1 THEN CL("req", t.args[1], \E k \in 2..Len(t.args) : t.args[k] = FAILW, PadOf(t.args))
  ELSE IF t.name = K_STICKER /\ Len(t.args) = 4 /\ t.args[1] = <<103,101,116>> /\ t.args[2] = <<115,111,110,103>> /\ t.args[4] = <<110>> THEN CL("sticker", t.args[3], FALSE, 0)
  ELSE IF t.name = <<117,112,100,97,116,101>> /\ Len(t.args) = 1 THEN CL("update", t.args[1], FALSE, 0)
  ELSE IF t.name = <<97,100,100,105,100>> /\ Len(t.args) = 1 THEN CL("addid", t.args[1], FALSE, 0)
  ELSE IF t.name = <<99,104,97,110,110,101,108,115>> /\ t.args = <<>> THEN CL("channels", <<>>, FALSE, 0)
  ELSE IF t.name \in {READPICTURE, ALBUMART} /\ Len(t.args) = 2 /\ IsDigits(t.args[2])
       THEN CL("pic", t.args[1], t.name = READPICTURE, NumOf(t.args[2]))
  ELSE CL("other", t.name, FALSE, 0)

\* deterministic picture content (the Rust twin is session.rs::pic_bytes); i is 0-based
PAT == <<79,75,10,98,105,110,97,114,121,58,32,51,10,65,67,75,32,91,53,64,48,93,32,123,125,32,120,10,108,105,115,116,95,79,75,10,0,255>>
PicByte(tag, k) == IF k = 0 THEN tag ELSE
                   IF (k \div Len(PAT)) % 3 = 2 THEN (k * 31 + tag) % 256 ELSE PAT[(k % Len(PAT)) + 1]
\* digest of bytes [off, off+n): first <= 4 bytes, then last <= 4 bytes in reverse order
Digest(tag, off, n) == [j \in 1..Min(4, n) |-> PicByte(tag, off + j - 1)] \o [j \in 1..Min(4, n) |-> PicByte(tag, off + n - j)]

JLine(j) == Line(j.t, j.k, j.v, j.a, j.b)
JCmds(cs) == [k \in 1..Len(cs) |-> IF cs[k].t = "req" THEN Cmd(cs[k].id, cs[k].fail, cs[k].pad) ELSE CmdT(cs[k].t, cs[k].id)]
JRes(r) == [Res(r.t, r.frames, r.code, r.idx, r.cmd, r.msg) EXCEPT !.kind = r.kind, !.items = r.items]
PairSet(s) == {s[k] : k \in 1..Len(s)}

\* conformance of the Rust simulator with the server model: the k-th srv_out record is the k-th reply of the model
Conf(ww, r) ==
  IF ww.desync THEN ww ELSE
  LET k == ww.nconf + 1 IN
  IF k > Len(ww.reps) THEN V(ww, "HARNESS", "simulator emitted a reply the server model did not", "")
  ELSE LET rep == ww.reps[k]  ls == ReplyLines(ww, rep) IN
       Chk(Chk([ww EXCEPT !.nconf = k], ls = [j \in 1..Len(r.lines) |-> JLine(r.lines[j])], "HARNESS", "simulator reply differs from the server model's reply"),
           \A j \in 1..Len(r.lines) : r.lines[j].len = ByteLen(JLine(r.lines[j])), "HARNESS", "line length differs from the model's serialisation")

FreshW(r) ==
  LET w0 == [InitW(r.has_pw, r.pw, r.srv_pw, r.has_srv_pw, r.auth, r.pic) EXCEPT !.pic2 = r.pic2, !.evLazy = r.lazy_events] IN
  IF r.greeting = <<>> THEN w0 ELSE Emit(w0, "greet", <<Line("greet", <<>>, r.greeting, 0, 0)>>, 0)

GreetSeen(ww) == IF ww.out = <<>> \/ ww.out[1].l.t # "greet" THEN <<>> ELSE SubSeq(ww.out[1].l.v, 1, Min(ww.dl, Len(ww.out[1].l.v)))

Step(ww, r) ==
  CASE r.e = "reset"      -> FreshW(r)
    [] r.e = "srv_out"    -> Conf(ww, r)
    [] r.e = "cli_line"   -> WCliLineD(ww, Classify(r.l), Digest)
    [] r.e = "deliver"    -> WDeliver(ww, r.n)
    [] r.e = "read"       -> WRead(ww, r.n)
    [] r.e = "read_eof"   -> WReadEof(ww)
    [] r.e = "read_err"   -> WReadErr(ww)
    [] r.e = "write_err"  -> WWriteErr(ww)
    [] r.e = "issue"      -> WIssue(ww, r.c, r.n, r.kind, JCmds(r.cmds), r.uri)
    [] r.e = "resolve"    -> WResolve(ww, r.c, r.n, JRes(r.res))
    [] r.e = "cancel"     -> WCancel(ww, r.c, r.n)
    [] r.e = "drop_handle" -> WDropHandle(ww, r.left)
    [] r.e = "change"     -> WChangeX(ww, r.subs, r.extra)
    [] r.e = "event"      -> IF r.t = "chg" THEN WEvent(ww, r.name) ELSE WClosingEvent(ww, r.kind)
    [] r.e = "events_end" -> WEventsEnd(ww)
    [] r.e = "events_dropped" -> WEventsDropped(ww)
    [] r.e = "events_eager" -> [ww EXCEPT !.evLazy = FALSE]
    [] r.e = "timeout"    -> WTimeout(ww)
    [] r.e = "wstall"     -> WStall(ww, TRUE)
    [] r.e = "wresume"    -> WStall(ww, FALSE)
    [] r.e = "quiescent"  -> Chk(WQuiescent(ww), ww.desync \/ ww.nconf = Len(ww.reps), "HARNESS", "server model emitted a reply the simulator did not")
    [] r.e = "fault"      -> WFault(ww, r.kind, r.lost)
    [] r.e = "connected"  -> LET g == GreetingRef(GreetSeen(ww)) IN WConnected(ww, r.ok, r.err, r.version, ww.nhCfg, g.ok, g.version, g.cut)
    [] r.e = "final"      -> WFinal(ww, [closed |-> r.closed, closedKnown |-> r.closed_known, evEnded |-> r.ev_ended,
                                         ioDropped |-> r.io_dropped, unresolved |-> PairSet(r.unresolved), alive |-> r.alive])
    [] r.e = "end"        -> LET w1 == WEnd(ww, PairSet(r.unresolved), r.ev_ended, r.io_dropped) IN
                             IF r.panics > 0 THEN V(w1, "PANIC", "a task of the client panicked during the run", "") ELSE w1
    [] r.e = "harness_panic" -> V(ww, "PANIC", "the session driver panicked", "")
    [] OTHER              -> ww      \* write, noop, drain, io_dropped: no effect on the world

Init == i = 0 /\ run = -1 /\ w = [InitW(FALSE, <<>>, <<>>, FALSE, "ok", [embedded |-> -1, file |-> -1, hasMime |-> FALSE, mime |-> <<>>, limit |-> 1, embedded_ack |-> 0, file_ack |-> 0, vary |-> FALSE, ackp |-> FALSE, tfirst |-> FALSE]) EXCEPT !.viol = <<>>] @@ [nhCfg |-> 0]

Next == /\ i < Len(Recs)
        /\ i' = i + 1
        /\ LET r == Recs[i + 1]
               w0 == IF r.e = "reset" THEN w ELSE [w EXCEPT !.viol = <<>>]
               w1 == IF r.e = "reset" THEN FreshW(r) @@ [nhCfg |-> r.nh] ELSE Step(w0, r) IN
           /\ w' = w1
           /\ run' = IF r.e = "reset" THEN r.run ELSE run
           /\ IF w1.viol # <<>> THEN PrintT(<<"VIOL", run', i + 1, w1.viol>>) ELSE TRUE

Spec == Init /\ [][Next]_vars

Accepted == IF TLCGet("stats").diameter - 1 = Len(Recs) THEN TRUE
            ELSE PrintT(<<"UNMATCHED", TLCGet("stats").diameter, Len(Recs)>>) /\ FALSE
=============================================================================
